/* TRUSTED: p_malloc/p_malloc0/p_realloc/p_free -- model of pmem.c over CBMC's malloc/free: returns NULL for size 0, otherwise either NULL (when g_alloc_may_fail, at any call) or a fresh block of exactly n bytes (zeroed for p_malloc0); p_free(NULL) is a no-op */
#ifndef VERIF_ENV_ALLOC_C
#define VERIF_ENV_ALLOC_C
#include "env/verif.h"
#include <stdlib.h>
#include <string.h>
#include "pmem.h"

_Bool         g_alloc_may_fail = 1;  /* harness may clear it */
_Bool         g_alloc_failed;        /* some allocation in this run returned NULL */
unsigned long g_allocs;              /* successful allocations */
unsigned long g_frees;

ppointer p_malloc (psize n_bytes)
{
	if (n_bytes == 0)
		return NULL;
	if (g_alloc_may_fail && nondet_bool ()) {
		g_alloc_failed = 1;
		return NULL;
	}
	ppointer r = malloc (n_bytes);
	__CPROVER_assume (r != NULL);
	g_allocs++;
	return r;
}

ppointer p_malloc0 (psize n_bytes)
{
	if (n_bytes == 0)
		return NULL;
	if (g_alloc_may_fail && nondet_bool ()) {
		g_alloc_failed = 1;
		return NULL;
	}
	ppointer r = calloc (1, n_bytes);
	__CPROVER_assume (r != NULL);
	g_allocs++;
	return r;
}

ppointer p_realloc (ppointer mem, psize n_bytes)
{
	if (n_bytes == 0)
		return NULL;
	if (g_alloc_may_fail && nondet_bool ()) {
		g_alloc_failed = 1;
		return NULL;
	}
	ppointer r = realloc (mem, n_bytes);
	__CPROVER_assume (r != NULL);
	if (mem == NULL)
		g_allocs++;
	return r;
}

void p_free (ppointer mem)
{
	if (mem != NULL) {
		g_frees++;
		free (mem);
	}
}
#endif
