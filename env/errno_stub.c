/* TRUSTED: p_error_get_last_net/p_error_get_last_system -- return the ghost errno set by the failing native call; p_error_get_last_ipc -- some PErrorIPC code for it */
#ifndef VERIF_ENV_ERRNO_STUB_C
#define VERIF_ENV_ERRNO_STUB_C
#include "env/verif.h"
#include "pmacros.h"
#include "ptypes.h"
#include "perror.h"
int g_errno;
pint p_error_get_last_net (void)    { return g_errno; }
pint p_error_get_last_system (void) { return g_errno; }
PErrorIPC p_error_get_last_ipc (void) { int r = nondet_int (); __CPROVER_assume (r >= P_ERROR_IPC_NONE && r <= P_ERROR_IPC_FAILED); return (PErrorIPC) r; }
#endif
