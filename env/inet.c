/* TRUSTED: inet_pton -- accepts/rejects as the platform decides (ghost g_pton_accept4/6, any bytes g_pton_bytes), writes exactly 4/16 bytes on success */
/* TRUSTED: inet_ntop -- writes a NUL-terminated string of at most INET_ADDRSTRLEN/INET6_ADDRSTRLEN bytes into dst, returns dst; requires size large enough */
/* TRUSTED: getaddrinfo/freeaddrinfo -- on success yields one platform-chosen addrinfo (any family, any length, any sockaddr bytes); must be released exactly once */
/* TRUSTED: strlen (abstract: any length) */
/* TRUSTED: strchr (abstract) -- returns NULL or a pointer into the string, decided by ghost g_has_colon; string content is not interpreted */
/* TRUSTED: p_strdup (abstract) -- returns NULL or a fresh string; records its argument */
#ifndef VERIF_ENV_INET_C
#define VERIF_ENV_INET_C
#include "env/verif.h"
#include <sys/types.h>
#include <sys/socket.h>
#include <netinet/in.h>
#include <arpa/inet.h>
#include <netdb.h>
#include <stdlib.h>
#include "pstring.h"

_Bool          g_pton_accept4, g_pton_accept6;  /* what the platform thinks of the string */
unsigned char  g_pton_bytes[16];                /* the bytes it produces */
const char    *g_text;                          /* the string the caller passed to the library */
unsigned       g_pton_calls, g_ntop_calls, g_gai_calls, g_gai_free_calls;
int            g_ntop_af; const void *g_ntop_src; char *g_ntop_dst; socklen_t g_ntop_size;
_Bool          g_has_colon;
_Bool          g_gai_ok; int g_gai_family; socklen_t g_gai_addrlen;
struct addrinfo *g_gai_res; struct sockaddr_in6 *g_gai_sa;
const char    *g_strdup_arg; char *g_strdup_ret;

/* DFCC havocs every static; ghost counters start from a defined state */
size_t g_text_len;   /* length of the caller's text: any */
void inet_env_reset (void)
{
	g_pton_calls = g_ntop_calls = g_gai_calls = g_gai_free_calls = 0;
	g_gai_res = NULL; g_gai_sa = NULL; g_strdup_arg = NULL; g_strdup_ret = NULL;
	g_ntop_src = NULL; g_ntop_dst = NULL;
	g_text_len = nondet_size_t ();
}

int inet_pton (int af, const char *src, void *dst)
{
	ENV_REQ (af == AF_INET || af == AF_INET6, "inet_pton: family is AF_INET or AF_INET6");
	ENV_REQ (src == g_text, "inet_pton: the caller's string is passed");
	g_pton_calls++;
	if (af == AF_INET) {
		ENV_REQ (__CPROVER_w_ok (dst, 4), "inet_pton: 4 writable bytes at dst");
		if (!g_pton_accept4) return 0;
		for (int i = 0; i < 4; i++) ((unsigned char *) dst)[i] = g_pton_bytes[i];
		return 1;
	}
	ENV_REQ (__CPROVER_w_ok (dst, 16), "inet_pton: 16 writable bytes at dst");
	if (!g_pton_accept6) return 0;
	for (int i = 0; i < 16; i++) ((unsigned char *) dst)[i] = g_pton_bytes[i];
	return 1;
}

const char *inet_ntop (int af, const void *src, char *dst, socklen_t size)
{
	ENV_REQ (af == AF_INET || af == AF_INET6, "inet_ntop: family is AF_INET or AF_INET6");
	ENV_REQ (size >= (af == AF_INET ? INET_ADDRSTRLEN : INET6_ADDRSTRLEN), "inet_ntop: buffer large enough for any address of the family");
	ENV_REQ (__CPROVER_w_ok (dst, size), "inet_ntop: dst writable for size bytes");
	ENV_REQ (__CPROVER_r_ok (src, af == AF_INET ? 4 : 16), "inet_ntop: src readable");
	g_ntop_calls++; g_ntop_af = af; g_ntop_src = src; g_ntop_dst = dst; g_ntop_size = size;
	__CPROVER_havoc_slice (dst, size);
	dst[(af == AF_INET ? INET_ADDRSTRLEN : INET6_ADDRSTRLEN) - 1] = 0;
	return dst;
}

int getaddrinfo (const char *node, const char *service, const struct addrinfo *hints, struct addrinfo **res)
{
	ENV_REQ (node == g_text, "getaddrinfo: the caller's string is passed");
	ENV_REQ (hints != NULL && (hints->ai_flags & AI_NUMERICHOST), "getaddrinfo: AI_NUMERICHOST (no name resolution)");
	ENV_REQ (res != NULL, "getaddrinfo: result pointer");
	g_gai_calls++;
	if (!g_gai_ok) return EAI_NONAME;
	g_gai_res = malloc (sizeof (struct addrinfo));
	g_gai_sa = malloc (sizeof (struct sockaddr_in6));
	__CPROVER_assume (g_gai_res != NULL && g_gai_sa != NULL);
	g_gai_res->ai_family = g_gai_family;
	g_gai_res->ai_addrlen = g_gai_addrlen;
	g_gai_res->ai_addr = (struct sockaddr *) g_gai_sa;
	g_gai_res->ai_next = NULL;
	g_gai_sa->sin6_family = (sa_family_t) g_gai_family;
	*res = g_gai_res;
	return 0;
}

void freeaddrinfo (struct addrinfo *res)
{
	ENV_REQ (res == g_gai_res && g_gai_free_calls == 0, "freeaddrinfo: the list from getaddrinfo, exactly once");
	g_gai_free_calls++;
	free (g_gai_sa);
	free (g_gai_res);
}

/* strlen (abstract, like strchr): the caller's text has SOME length -- any -- that the library may ask for but must not
 * base acceptance on (acceptance is the platform's: inet_pton / getaddrinfo) */
size_t strlen (const char *s) { ENV_REQ (s != NULL, "strlen: non-NULL string"); return g_text_len; }
char *strchr (const char *s, int c)
{
	ENV_REQ (s != NULL, "strchr: non-NULL string");
	return g_has_colon ? (char *) s : NULL;
}

pchar *p_strdup (const pchar *str)
{
	g_strdup_arg = str;
	if (nondet_bool ()) { g_strdup_ret = NULL; return NULL; }
	g_strdup_ret = malloc (4);
	__CPROVER_assume (g_strdup_ret != NULL);
	return g_strdup_ret;
}
#endif
