/* TRUSTED: memcpy/memset (call-log model) -- copies of header words (<= 16 bytes at segment offset < 16) are performed exactly; every other copy the call is checked (source readable, destination writable for n bytes, objects distinct) and RECORDED (object, offsets, length, whether the lock was held) instead of performed; postconditions about bulk data are stated over the log, whose meaning "dst[i] = src[i] for i < n" is memcpy's C semantics */
#ifndef VERIF_ENV_MEMLOG_C
#define VERIF_ENV_MEMLOG_C
#include "env/verif.h"
#include <string.h>

#define MEMLOG_MAX 2
typedef struct {
	const char *dst, *src;     /* as passed */
	size_t      n;
	_Bool       held;          /* monitor lock held at the time of the call */
} memlog_entry;
memlog_entry g_cpy[MEMLOG_MAX];
unsigned     g_ncpy;
const char  *g_seg_base;       /* base of the shared segment (NULL: every copy of <= 16 bytes is exact) */
size_t       g_seg_len;        /* LOGICAL size of the segment object: only its 16 header bytes exist physically */
const char  *g_user_base;      /* the caller's data/storage buffer: 1 physical byte, LOGICAL size g_user_len */
size_t       g_user_len;
/* the two big buffers are never touched except through memcpy/memset, so they are
 * kept abstract: bounds are checked arithmetically against the logical sizes (this is
 * what keeps the proof independent of the capacity); any direct dereference of
 * their data area by the code under test fails CBMC's pointer check */
#define MEM_OK(p, n, rw) (__CPROVER_same_object ((p), g_seg_base) ? \
	((size_t) __CPROVER_POINTER_OFFSET (p) <= g_seg_len && (n) <= g_seg_len - (size_t) __CPROVER_POINTER_OFFSET (p)) : \
	__CPROVER_same_object ((p), g_user_base) ? \
	((size_t) __CPROVER_POINTER_OFFSET (p) <= g_user_len && (n) <= g_user_len - (size_t) __CPROVER_POINTER_OFFSET (p)) : rw ((p), (n)))
_Bool        g_mon_held;       /* set/cleared by the lock model */
unsigned     g_nset; const char *g_set_dst; size_t g_set_n; int g_set_c; _Bool g_set_held;

void memlog_reset (void) { g_ncpy = 0; g_nset = 0; }

#define CP1(i) if ((i) < n) ((char *) d)[i] = ((const char *) s)[i];
void *memcpy (void *d, const void *s, size_t n)
{
	ENV_REQ (n == 0 || MEM_OK (s, n, __CPROVER_r_ok), "memcpy: source readable for n bytes");
	ENV_REQ (n == 0 || MEM_OK (d, n, __CPROVER_w_ok), "memcpy: destination writable for n bytes");
	if (n <= 16 && ((__CPROVER_same_object (d, g_seg_base) && (size_t) __CPROVER_POINTER_OFFSET (d) < 16) ||
	                (__CPROVER_same_object (s, g_seg_base) && (size_t) __CPROVER_POINTER_OFFSET (s) < 16) || g_seg_base == NULL)) {
		/* header-word access (or no segment declared): performed exactly */
		ENV_REQ (g_seg_base == NULL || !__CPROVER_same_object (d, g_seg_base) || (size_t) __CPROVER_POINTER_OFFSET (d) + n <= 16, "header store stays inside the 16 header bytes");
		CP1 (0) CP1 (1) CP1 (2) CP1 (3) CP1 (4) CP1 (5) CP1 (6) CP1 (7)
		CP1 (8) CP1 (9) CP1 (10) CP1 (11) CP1 (12) CP1 (13) CP1 (14) CP1 (15)
		return d;
	}
	ENV_REQ (!__CPROVER_same_object (d, s), "memcpy: bulk copy between distinct objects (no overlap)");
	ENV_REQ (g_ncpy < MEMLOG_MAX, "memcpy: at most two bulk copies per operation (contiguous or split at the ring end)");
	if (g_ncpy < MEMLOG_MAX) {
		g_cpy[g_ncpy].dst = d; g_cpy[g_ncpy].src = s; g_cpy[g_ncpy].n = n; g_cpy[g_ncpy].held = g_mon_held;
		g_ncpy++;
	}
	return d;
}

#define ST1(i) if ((i) < n) ((char *) d)[i] = (char) c;
void *memset (void *d, int c, size_t n)
{
	ENV_REQ (n == 0 || MEM_OK (d, n, __CPROVER_w_ok), "memset: destination writable for n bytes");
	/* the first 16 bytes are written exactly (header words), the rest is recorded */
	ST1 (0) ST1 (1) ST1 (2) ST1 (3) ST1 (4) ST1 (5) ST1 (6) ST1 (7)
	ST1 (8) ST1 (9) ST1 (10) ST1 (11) ST1 (12) ST1 (13) ST1 (14) ST1 (15)
	if (n > 16) { g_nset++; g_set_dst = d; g_set_n = n; g_set_c = c; g_set_held = g_mon_held; }
	return d;
}
#endif
