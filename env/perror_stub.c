/* TRUSTED: p_error_set_error_p (abstract) -- records the FIRST reported code in ghost g_err_code/g_err_native (the real function keeps the first error too) and counts calls; the PError object itself is not built (perror.c is verified in C18/C20 units) */
#ifndef VERIF_ENV_PERROR_STUB_C
#define VERIF_ENV_PERROR_STUB_C
#include "env/verif.h"
#include "perror.h"
int      g_err_code, g_err_native;
unsigned g_err_calls;
void p_error_set_error_p (PError **error, pint code, pint native_code, const pchar *message)
{
	(void) error; (void) message;
	if (g_err_calls == 0) { g_err_code = code; g_err_native = native_code; }   /* the first error is the one the caller sees */
	g_err_calls++;
}
#endif
