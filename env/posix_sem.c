/* TRUSTED: POSIX named semaphores (sem_open/sem_unlink/sem_close/sem_wait/sem_post) -- ghost model of the kernel namespace for the one name under test: ns = {exists, counter id, value}; a creation draws a never-used id; O_CREAT|O_EXCL on an existing name fails with EEXIST, opening a missing name without O_CREAT fails with ENOENT, creation makes a FRESH counter object with the given value, unlink removes the name only (holders keep the object); every call may fail with EINTR any number of times (sem_open, sem_wait) or with another errno; sem_wait succeeds only by consuming a unit of the counter its handle is bound to */
/* TRUSTED: sem_open is variadic in libc; bound by macro to a 4-argument contract function (every call site in psemaphore-posix.c passes 4) */
#ifndef VERIF_ENV_POSIX_SEM_C
#define VERIF_ENV_POSIX_SEM_C
#include "env/verif.h"
#include <semaphore.h>
#include <fcntl.h>
#include <errno.h>
#include <stdlib.h>
#include "pmacros.h"
#include "ptypes.h"
#include "env/errno_stub.c"

/* counters are identified by ids; a creation draws a never-used id.  Only two counters matter: the one the name
 * denotes (ns_id, ns_value) and the one the library's handle is bound to (hdl_id); when the name is unlinked or
 * re-bound while the handle still refers to the old counter, that counter lives on as an orphan (hdl_value). */
_Bool          ns_exists;       /* the name is bound ... */
unsigned long  ns_id;           /* ... to the counter with this id ... */
unsigned       ns_value;        /* ... holding this many units */
unsigned long  g_next_id;       /* ids handed out so far */
const char    *g_key;           /* the platform key of the handle under test */
sem_t          g_sem_obj;       /* the address sem_open returns (one per name and process, as in glibc) */
_Bool          g_hdl_open;
unsigned long  hdl_id;          /* counter the open handle is bound to */
unsigned       hdl_value;       /* its value once it is no longer the named one */
unsigned long  g_sem_opens, g_sem_closes, g_sem_unlinks, g_sem_waits_ok, g_sem_posts_ok, g_sem_creates;
unsigned       g_created_value; /* value given to the counter this process created last */
_Bool          g_sem_other_error;   /* some call failed for a reason other than EINTR / EEXIST / ENOENT */
_Bool          g_sem_no_other_errors;   /* harness switch: only EINTR faults are injected */
_Bool          g_env_active;    /* other processes act on the name between the library's system calls (race units only) */
#define SEM_INC(c) do { __CPROVER_assume ((c) < (1ul << 62)); (c)++; } while (0)
#define SEM_GHOSTS ns_exists, ns_id, ns_value, g_next_id, g_hdl_open, hdl_id, hdl_value, g_sem_opens, g_sem_closes, g_sem_unlinks, g_sem_waits_ok, \
	g_sem_posts_ok, g_sem_creates, g_created_value, g_sem_other_error, g_errno
#define HDL_IS_NAMED (ns_exists && hdl_id == ns_id)
/* units in the counter the handle is bound to */
#define HVAL (HDL_IS_NAMED ? ns_value : hdl_value)

static void ns_unbind (void)
{
	if (HDL_IS_NAMED) hdl_value = ns_value;   /* whoever holds the counter keeps it, now nameless */
	ns_exists = 0;
}
static void ns_create (unsigned value)
{
	SEM_INC (g_next_id); ns_id = g_next_id; ns_value = value; ns_exists = 1;
}
#ifdef VERIF_PEER_OPENER
/* first-open race (C07): a second process that has already opened the segment this process just created runs its
 * own "open the lock, create it if missing" step (sem_open with O_CREAT, value 1) at some point between this
 * process's semaphore system calls, and keeps the handle it got */
_Bool          g_peer_opener;   /* race unit switch */
_Bool          g_peer_holds;    /* the peer has opened the lock ... */
unsigned long  g_peer_id;       /* ... and its handle is bound to this counter */
static void peer_open_step (void)
{
	if (!g_peer_opener || g_peer_holds || !nondet_bool ()) return;
	if (!ns_exists) ns_create (1);
	g_peer_holds = 1; g_peer_id = ns_id;
}
#else
#define peer_open_step() ((void) 0)
#endif
static void env_sem_step (void)
{
	peer_open_step ();
	/* another process: an owner frees (unlink), or someone (re-)creates the name with any value, or posts/waits */
	if (!g_env_active || !nondet_bool ()) return;
	if (ns_exists) { if (nondet_bool ()) ns_unbind (); else ns_value = nondet_uint (); }
	else ns_create (nondet_uint ());
}
static _Bool other_error (void)
{
	if (g_sem_no_other_errors || !nondet_bool ()) return 0;
	g_errno = nondet_int ();
	__CPROVER_assume (g_errno > 0 && g_errno != EINTR && g_errno != EEXIST && g_errno != ENOENT);
	g_sem_other_error = 1;
	return 1;
}

sem_t *verif_sem_open (const char *name, int oflag, unsigned mode, unsigned value)
{
	ENV_REQ (name != NULL && name == g_key, "sem_open: the handle's own platform key (other names are never touched)");
	ENV_REQ (!g_hdl_open, "sem_open: at most one open native handle per PSemaphore");
	SEM_INC (g_sem_opens);
	env_sem_step ();
	if (nondet_bool ()) { g_errno = EINTR; return SEM_FAILED; }
	if (other_error ()) return SEM_FAILED;
	if (oflag & O_CREAT) {
		if (ns_exists) {
			if (oflag & O_EXCL) { g_errno = EEXIST; return SEM_FAILED; }
		} else {
			ENV_REQ (value <= 0x7fffffff, "sem_open: initial value within SEM_VALUE_MAX");
			ns_create (value); SEM_INC (g_sem_creates); g_created_value = value;
		}
	} else if (!ns_exists) { g_errno = ENOENT; return SEM_FAILED; }
	hdl_id = ns_id; g_hdl_open = 1;
	return &g_sem_obj;
}
int sem_unlink (const char *name)
{
	ENV_REQ (name != NULL && name == g_key, "sem_unlink: the handle's own platform key");
	SEM_INC (g_sem_unlinks);
	env_sem_step ();
	if (!ns_exists) { g_errno = ENOENT; return -1; }
	ns_unbind ();   /* the counter lives on for whoever holds it; the name is free */
	return 0;
}
int sem_close (sem_t *h)
{
	ENV_REQ (g_hdl_open && h == &g_sem_obj, "sem_close: the open handle, exactly once");
	SEM_INC (g_sem_closes); g_hdl_open = 0;
	return 0;
}
int sem_wait (sem_t *h)
{
	ENV_REQ (g_hdl_open && h == &g_sem_obj, "sem_wait: on the PSemaphore's open handle");
	if (nondet_bool ()) { g_errno = EINTR; return -1; }
	if (other_error ()) return -1;
	__CPROVER_assume (HVAL > 0);   /* returns 0 only by consuming a unit (otherwise it keeps blocking) */
	if (HDL_IS_NAMED) ns_value--; else hdl_value--;
	SEM_INC (g_sem_waits_ok);
	return 0;
}
int sem_post (sem_t *h)
{
	ENV_REQ (g_hdl_open && h == &g_sem_obj, "sem_post: on the PSemaphore's open handle");
	if (other_error ()) return -1;
	__CPROVER_assume (HVAL < 0x7fffffff);
	if (HDL_IS_NAMED) ns_value++; else hdl_value++;
	SEM_INC (g_sem_posts_ok);
	return 0;
}
#endif
