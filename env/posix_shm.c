/* TRUSTED: POSIX shared memory (shm_open/ftruncate/fstat/mmap/munmap/shm_unlink/close) -- ghost model of the kernel namespace for the one segment name under test: ns = {exists, object id, size}; O_CREAT|O_EXCL on an existing name fails with EEXIST, a created object has size 0 until ftruncate, fstat reports the object's current size, mmap(len 0) fails with EINVAL, mmap of any other length succeeds or fails (bytes beyond the object's size fault on access), munmap must remove exactly one recorded mapping, shm_unlink removes the name only; shm_open may fail with EINTR any number of times, every call may fail with another errno; close() succeeds */
#ifndef VERIF_ENV_POSIX_SHM_C
#define VERIF_ENV_POSIX_SHM_C
#include "env/verif.h"
#include <sys/mman.h>
#include <sys/stat.h>
#include <fcntl.h>
#include <errno.h>
#include <unistd.h>
#include "env/errno_stub.c"

_Bool          shm_exists; unsigned long shm_id; size_t shm_size;   /* namespace entry of the segment name */
unsigned long  g_shm_next_id;
const char    *g_shm_key;
int            g_fd; _Bool g_fd_live; unsigned long g_fd_id;       /* the one descriptor the library may hold */
size_t         g_orphan_size;                                      /* size of the object once it lost its name */
_Bool          g_map_live; size_t g_map_len; unsigned long g_map_id; int g_map_prot; char g_map_obj;
unsigned long  g_shm_opens, g_shm_creates, g_fd_closes, g_truncs, g_fstats, g_maps, g_unmaps, g_shm_unlinks;
size_t         g_trunc_len;
_Bool          g_shm_other_error, g_shm_no_other_errors;
#define SHM_INC(c) do { __CPROVER_assume ((c) < (1ul << 62)); (c)++; } while (0)
#define OBJ_IS_NAMED(id) (shm_exists && (id) == shm_id)
#define OBJ_SIZE(id) (OBJ_IS_NAMED (id) ? shm_size : g_orphan_size)

static _Bool shm_other_error (void)
{
	if (g_shm_no_other_errors || !nondet_bool ()) return 0;
	g_errno = nondet_int ();
	__CPROVER_assume (g_errno > 0 && g_errno != EINTR && g_errno != EEXIST && g_errno != ENOENT);
	g_shm_other_error = 1;
	return 1;
}
int shm_open (const char *name, int oflag, mode_t mode)
{
	ENV_REQ (name != NULL && name == g_shm_key, "shm_open: the handle's own platform key");
	ENV_REQ (!g_fd_live, "shm_open: the previous descriptor was closed (at most one at a time)");
	SHM_INC (g_shm_opens);
	if (nondet_bool ()) { g_errno = EINTR; return -1; }
	if (shm_other_error ()) return -1;
	if (oflag & O_CREAT) {
		if (shm_exists) { if (oflag & O_EXCL) { g_errno = EEXIST; return -1; } }
		else { SHM_INC (g_shm_next_id); shm_id = g_shm_next_id; shm_size = 0; shm_exists = 1; SHM_INC (g_shm_creates); }
	} else if (!shm_exists) { g_errno = ENOENT; return -1; }
	g_fd = nondet_int (); __CPROVER_assume (g_fd >= 0);
	g_fd_live = 1; g_fd_id = shm_id;
	return g_fd;
}
int ftruncate (int fd, off_t len)
{
	ENV_REQ (g_fd_live && fd == g_fd, "ftruncate: on the live descriptor");
	SHM_INC (g_truncs); g_trunc_len = (size_t) len;
	if (shm_other_error ()) return -1;
	if (OBJ_IS_NAMED (g_fd_id)) shm_size = (size_t) len; else g_orphan_size = (size_t) len;
	return 0;
}
int fstat (int fd, struct stat *st)
{
	ENV_REQ (g_fd_live && fd == g_fd && st != NULL, "fstat: on the live descriptor");
	SHM_INC (g_fstats);
	if (shm_other_error ()) return -1;
	st->st_size = (off_t) OBJ_SIZE (g_fd_id);
	return 0;
}
void *mmap (void *addr, size_t len, int prot, int flags, int fd, off_t off)
{
	ENV_REQ (g_fd_live && fd == g_fd, "mmap: of the live descriptor");
	ENV_REQ (addr == NULL && off == 0 && (flags & MAP_SHARED), "mmap: shared mapping of the whole object");
	ENV_REQ (!g_map_live, "mmap: one mapping per handle");
	SHM_INC (g_maps);
	if (len == 0) { g_errno = EINVAL; return MAP_FAILED; }
	if (shm_other_error ()) return MAP_FAILED;
	g_map_live = 1; g_map_len = len; g_map_id = g_fd_id; g_map_prot = prot;
	return &g_map_obj;
}
int munmap (void *addr, size_t len)
{
	ENV_REQ (g_map_live && addr == (void *) &g_map_obj, "munmap: the address that was mapped");
	ENV_REQ (len == g_map_len, "munmap: the length that was mapped (otherwise part of the mapping stays)");
	SHM_INC (g_unmaps); g_map_live = 0;
	return 0;
}
int shm_unlink (const char *name)
{
	ENV_REQ (name != NULL && name == g_shm_key, "shm_unlink: the handle's own platform key");
	SHM_INC (g_shm_unlinks);
	if (!shm_exists) { g_errno = ENOENT; return -1; }
	g_orphan_size = shm_size; shm_exists = 0;
	return 0;
}
int close (int fd)
{
	ENV_REQ (g_fd_live && fd == g_fd, "close: the live descriptor, exactly once");
	SHM_INC (g_fd_closes); g_fd_live = 0;
	return 0;
}
#endif
