/* TRUSTED: pthread_mutex_* / pthread_cond_* (call-log stubs) -- every call is counted, its handle arguments recorded, and it returns an arbitrary int; mutual exclusion, atomic release-and-wait, wake-up and visibility semantics are POSIX's and are not modelled */
#ifndef VERIF_ENV_PTHREAD_C
#define VERIF_ENV_PTHREAD_C
#include "env/verif.h"
#include <pthread.h>

unsigned g_pt_calls;                                  /* all pthread calls */
unsigned g_minit, g_mlock, g_mtrylock, g_munlock, g_mdestroy;
unsigned g_cinit, g_cwait, g_csignal, g_cbroadcast, g_cdestroy;
pthread_mutex_t *g_m_hdl; pthread_cond_t *g_c_hdl; pthread_mutex_t *g_cwait_mutex;
int g_pt_rc;                                          /* result of the last pthread call */

void pthread_env_reset (void)
{
	g_pt_calls = g_minit = g_mlock = g_mtrylock = g_munlock = g_mdestroy = 0;
	g_cinit = g_cwait = g_csignal = g_cbroadcast = g_cdestroy = 0;
	g_m_hdl = NULL; g_c_hdl = NULL; g_cwait_mutex = NULL;
}
#define PT_INIT (g_pt_calls == 0 && g_minit == 0 && g_mlock == 0 && g_mtrylock == 0 && g_munlock == 0 && g_mdestroy == 0 && \
	g_cinit == 0 && g_cwait == 0 && g_csignal == 0 && g_cbroadcast == 0 && g_cdestroy == 0)
#define PT_GHOSTS g_pt_calls, g_minit, g_mlock, g_mtrylock, g_munlock, g_mdestroy, g_cinit, g_cwait, g_csignal, g_cbroadcast, g_cdestroy, \
	g_m_hdl, g_c_hdl, g_cwait_mutex, g_pt_rc

#define PT_RET (g_pt_calls++, g_pt_rc = nondet_int (), g_pt_rc)
int pthread_mutex_init (pthread_mutex_t *m, const pthread_mutexattr_t *a) { ENV_REQ (a == NULL, "pthread_mutex_init: default attributes (a plain, non-recursive mutex: a condition wait releases the caller's one and only hold)"); g_minit++; g_m_hdl = m; return PT_RET; }
int pthread_mutex_lock (pthread_mutex_t *m)     { g_mlock++; g_m_hdl = m; return PT_RET; }
int pthread_mutex_trylock (pthread_mutex_t *m)  { g_mtrylock++; g_m_hdl = m; return PT_RET; }
int pthread_mutex_unlock (pthread_mutex_t *m)   { g_munlock++; g_m_hdl = m; return PT_RET; }
int pthread_mutex_destroy (pthread_mutex_t *m)  { g_mdestroy++; g_m_hdl = m; return PT_RET; }
int pthread_cond_init (pthread_cond_t *c, const pthread_condattr_t *a) { ENV_REQ (a == NULL, "pthread_cond_init: default attributes"); g_cinit++; g_c_hdl = c; return PT_RET; }
int pthread_cond_wait (pthread_cond_t *c, pthread_mutex_t *m) { g_cwait++; g_c_hdl = c; g_cwait_mutex = m; return PT_RET; }
int pthread_cond_signal (pthread_cond_t *c)     { g_csignal++; g_c_hdl = c; return PT_RET; }
int pthread_cond_broadcast (pthread_cond_t *c)  { g_cbroadcast++; g_c_hdl = c; return PT_RET; }
int pthread_cond_destroy (pthread_cond_t *c)    { g_cdestroy++; g_c_hdl = c; return PT_RET; }
/* pthread_rwlock_* (call-log stubs, appended for C02) */
#ifndef VERIF_ENV_PTHREAD_RW
#define VERIF_ENV_PTHREAD_RW
unsigned g_rw_calls, g_rwinit, g_rdlock, g_wrlock, g_tryrd, g_trywr, g_rwunlock, g_rwdestroy; pthread_rwlock_t *g_rw_hdl; int g_rw_rc;
#define RW_INIT (g_rw_calls == 0 && g_rwinit == 0 && g_rdlock == 0 && g_wrlock == 0 && g_tryrd == 0 && g_trywr == 0 && g_rwunlock == 0 && g_rwdestroy == 0)
#define RW_GHOSTS g_rw_calls, g_rwinit, g_rdlock, g_wrlock, g_tryrd, g_trywr, g_rwunlock, g_rwdestroy, g_rw_hdl, g_rw_rc
#define RW_RET (g_rw_calls++, g_rw_rc = nondet_int (), g_rw_rc)
int pthread_rwlock_init (pthread_rwlock_t *l, const pthread_rwlockattr_t *a) { ENV_REQ (a == NULL, "pthread_rwlock_init: default attributes"); g_rwinit++; g_rw_hdl = l; return RW_RET; }
int pthread_rwlock_rdlock (pthread_rwlock_t *l)    { g_rdlock++; g_rw_hdl = l; return RW_RET; }
int pthread_rwlock_wrlock (pthread_rwlock_t *l)    { g_wrlock++; g_rw_hdl = l; return RW_RET; }
int pthread_rwlock_tryrdlock (pthread_rwlock_t *l) { g_tryrd++; g_rw_hdl = l; return RW_RET; }
int pthread_rwlock_trywrlock (pthread_rwlock_t *l) { g_trywr++; g_rw_hdl = l; return RW_RET; }
int pthread_rwlock_unlock (pthread_rwlock_t *l)    { g_rwunlock++; g_rw_hdl = l; return RW_RET; }
int pthread_rwlock_destroy (pthread_rwlock_t *l)   { g_rwdestroy++; g_rw_hdl = l; return RW_RET; }
#endif
#endif
