/* TRUSTED: BSD socket calls (send/sendto/recv/recvfrom/accept/connect/poll/getsockopt/setsockopt/getsockname/getpeername/bind/listen/shutdown/socket/close/fcntl) -- each checks that it is issued on the socket's own LIVE descriptor with the caller's buffer/length, counts itself, and returns either a success value POSIX allows (any count 0..len for transfers) or -1 with ANY errno (EINTR, EAGAIN, ... at every call: unbounded fault sequences); data contents are the kernel's */
#ifndef VERIF_ENV_SOCKETS_C
#define VERIF_ENV_SOCKETS_C
#include "env/verif.h"
#include <sys/types.h>
#include <sys/socket.h>
#include <sys/poll.h>
#include <netinet/in.h>
#include <fcntl.h>
#include <errno.h>
#include <unistd.h>
#include <string.h>
#include "pmacros.h"
#include "ptypes.h"
#include "env/errno_stub.c"

int       g_sock_fd;            /* descriptor of the socket under test */
_Bool     g_fd_live;            /* ... and whether the kernel still has it open */
/* ghost counters are mathematical: executions with 2^62 native calls are not considered (INC assumes no wrap) */
unsigned long g_native;         /* native calls on descriptors, any kind */
unsigned long g_polls, g_xfers, g_closes, g_accepts, g_connects, g_sockopts;
#define INC(c) do { __CPROVER_assume ((c) < (1ul << 62)); (c)++; } while (0)
_Bool     g_xfer_ok;            /* one transfer/accept/connect call has succeeded */
long      g_xfer_count;         /* what it returned */
int       g_xfer_errno;         /* errno of the last failed transfer call */
_Bool     g_last_fail_poll;     /* the most recent failing native call was poll */
int       g_poll_rc;            /* last poll result */
int       g_poll_timeout;       /* timeout argument every poll must carry */
short     g_poll_events;        /* events every poll must ask for (0: not checked) */
const void *g_user_buf; size_t g_user_len;   /* the caller's buffer */
int       g_new_fd;             /* descriptor produced by accept()/socket() */
_Bool     g_new_fd_live, g_new_fd_cloexec, g_new_fd_nonblock;
int       g_send_flags;
unsigned long g_so_error_read_at_polls;   /* number of polls made when SO_ERROR was last read (the result of an asynchronous connect is final only after the wait) */
const struct sockaddr *g_addr_arg; socklen_t g_addr_len; int g_addr_family;

#define SOCK_GHOSTS g_so_error_read_at_polls, g_errno, g_native, g_polls, g_xfers, g_closes, g_accepts, g_connects, g_sockopts, g_xfer_ok, g_xfer_count, g_xfer_errno, \
	g_last_fail_poll, g_poll_rc, g_new_fd, g_new_fd_live, g_new_fd_cloexec, g_new_fd_nonblock, g_send_flags, g_addr_arg, g_addr_len, g_addr_family, g_fd_live, g_close_failed, g_binds, g_listens, g_shutdowns, g_listen_backlog_arg, g_shutdown_how, \
	g_socket_calls, g_socket_type_arg, g_setsockopt_name, g_setsockopt_val, g_setsockopt_ok, g_getsockname_calls, g_getpeername_calls, g_name_ok
#define SOCK_INIT (g_native == 0 && g_polls == 0 && g_xfers == 0 && g_closes == 0 && g_accepts == 0 && g_connects == 0 && g_sockopts == 0 && \
	!g_xfer_ok && !g_last_fail_poll && !g_new_fd_live && !g_new_fd_cloexec && !g_new_fd_nonblock && !g_close_failed && \
	g_binds == 0 && g_listens == 0 && g_shutdowns == 0 && g_socket_calls == 0)


#define NATIVE(fd) do { INC (g_native); ENV_REQ ((fd) == g_sock_fd && g_fd_live, "native call only on the socket's own live descriptor"); } while (0)
#define FAIL_ANY_ERRNO do { g_errno = nondet_int (); __CPROVER_assume (g_errno > 0); } while (0)

static long xfer_result (size_t len)
{
	ENV_REQ (!g_xfer_ok, "no further transfer call after one has succeeded (nothing sent twice, nothing received and dropped)");
	INC (g_xfers);
	if (nondet_bool ()) {
		long n = nondet_long ();
		__CPROVER_assume (n >= 0 && (unsigned long) n <= len);
		g_xfer_ok = 1; g_xfer_count = n;
		return n;
	}
	FAIL_ANY_ERRNO; g_xfer_errno = g_errno; g_last_fail_poll = 0;
	return -1;
}
#define BUF_REQ(buf, len) do { \
	ENV_REQ ((const void *) (buf) == g_user_buf, "the caller's buffer is passed to the native call"); \
	ENV_REQ ((len) <= g_user_len && ((len) == g_user_len || g_user_len > 0xffffffffu), "the caller's length is passed (never more than the buffer)"); } while (0)

ssize_t send (int fd, const void *buf, size_t len, int flags)
{ NATIVE (fd); BUF_REQ (buf, len); g_send_flags = flags; ENV_REQ (flags & MSG_NOSIGNAL, "send: MSG_NOSIGNAL (a vanished peer gives EPIPE, not SIGPIPE)"); return xfer_result (len); }
ssize_t sendto (int fd, const void *buf, size_t len, int flags, const struct sockaddr *addr, socklen_t alen)
{ NATIVE (fd); BUF_REQ (buf, len); g_send_flags = flags; g_addr_arg = addr; g_addr_len = alen; g_addr_family = (addr != NULL && alen >= sizeof (sa_family_t)) ? addr->sa_family : -1; return xfer_result (len); }
ssize_t recv (int fd, void *buf, size_t len, int flags)
{ NATIVE (fd); BUF_REQ (buf, len); ENV_REQ (flags == 0, "recv: no MSG_PEEK/MSG_TRUNC games"); return xfer_result (len); }
unsigned char g_from_bytes[sizeof (struct sockaddr_in6)]; socklen_t g_from_len;   /* sender address the kernel reports */
ssize_t recvfrom (int fd, void *buf, size_t len, int flags, struct sockaddr *addr, socklen_t *alen)
{
	NATIVE (fd); BUF_REQ (buf, len); ENV_REQ (flags == 0, "recvfrom: plain receive");
	ENV_REQ (addr != NULL && alen != NULL && *alen >= sizeof (struct sockaddr_in6), "recvfrom: room for any sender address");
	long n = xfer_result (len);
	if (n >= 0) {
		__CPROVER_assume (g_from_len <= sizeof (struct sockaddr_in6));
		memcpy (addr, g_from_bytes, sizeof (struct sockaddr_in6));   /* bytes beyond g_from_len: arbitrary */
		*alen = g_from_len;
	}
	return n;
}
int accept (int fd, struct sockaddr *addr, socklen_t *alen)
{
	NATIVE (fd); INC (g_accepts);
	ENV_REQ (!g_xfer_ok, "no second accept after one has produced a descriptor");
	if (nondet_bool ()) { g_xfer_ok = 1; g_new_fd = nondet_int (); __CPROVER_assume (g_new_fd >= 0 && g_new_fd != g_sock_fd); g_new_fd_live = 1; g_xfer_count = g_new_fd; return g_new_fd; }
	FAIL_ANY_ERRNO; g_xfer_errno = g_errno; g_last_fail_poll = 0;
	return -1;
}
int connect (int fd, const struct sockaddr *addr, socklen_t alen)
{
	NATIVE (fd); INC (g_connects); g_addr_arg = addr; g_addr_len = alen; g_addr_family = (addr != NULL && alen >= sizeof (sa_family_t)) ? addr->sa_family : -1;
	ENV_REQ (!g_xfer_ok, "no connect after one has succeeded");
	if (nondet_bool ()) { g_xfer_ok = 1; return 0; }
	FAIL_ANY_ERRNO; g_xfer_errno = g_errno; g_last_fail_poll = 0;
	return -1;
}
int poll (struct pollfd *fds, nfds_t nfds, int timeout)
{
	ENV_REQ (nfds == 1 && fds != NULL, "poll: exactly the one descriptor");
	NATIVE (fds->fd); INC (g_polls);
	ENV_REQ (timeout == g_poll_timeout, "poll: timeout argument = socket timeout if > 0, else -1 (wait for ever); re-issued unchanged after EINTR");
	ENV_REQ (g_poll_events == 0 || fds->events == g_poll_events, "poll: waits for the requested condition");
	int r = nondet_int ();
	__CPROVER_assume (r >= -1 && r <= 1);
	g_poll_rc = r;
	if (r < 0) { FAIL_ANY_ERRNO; g_last_fail_poll = 1; }
	return r;
}
int g_so_error; _Bool g_getsockopt_fails;
int getsockopt (int fd, int level, int optname, void *optval, socklen_t *optlen)
{
	INC (g_native); INC (g_sockopts);
	ENV_REQ ((fd == g_sock_fd && g_fd_live) || (fd == g_new_fd && g_new_fd_live), "getsockopt on a live descriptor of the library");
	if (g_getsockopt_fails && nondet_bool ()) { FAIL_ANY_ERRNO; g_last_fail_poll = 0; return -1; }
	ENV_REQ (optval != NULL && optlen != NULL && *optlen >= sizeof (int), "getsockopt: int-sized option buffer");
	if (optname == SO_ERROR) g_so_error_read_at_polls = g_polls;
	*(int *) optval = (optname == SO_ERROR) ? g_so_error : nondet_int ();
	*optlen = nondet_bool () ? sizeof (int) : 1;
	return 0;
}
int g_setsockopt_name, g_setsockopt_val; _Bool g_setsockopt_ok;
int setsockopt (int fd, int level, int optname, const void *optval, socklen_t optlen)
{
	NATIVE (fd); INC (g_sockopts); g_setsockopt_name = optname;
	ENV_REQ (optval != NULL && optlen == sizeof (int), "setsockopt: int option");
	g_setsockopt_val = *(const int *) optval;
	if (nondet_bool ()) { g_setsockopt_ok = 0; FAIL_ANY_ERRNO; g_last_fail_poll = 0; return -1; }
	g_setsockopt_ok = 1;
	return 0;
}
unsigned char g_name_bytes[sizeof (struct sockaddr_storage)]; socklen_t g_name_len;
unsigned long g_getsockname_calls, g_getpeername_calls; _Bool g_name_ok;   /* which of the two name calls ran, and whether the last one succeeded */
static int name_result (int fd, struct sockaddr *addr, socklen_t *alen)
{
	g_name_ok = 0;
	INC (g_native);
	ENV_REQ ((fd == g_sock_fd && g_fd_live) || (fd == g_new_fd && g_new_fd_live), "getsockname/getpeername on a live descriptor of the library");
	ENV_REQ (addr != NULL && alen != NULL && *alen >= sizeof (struct sockaddr_storage), "room for any address");
	if (nondet_bool ()) { FAIL_ANY_ERRNO; g_last_fail_poll = 0; return -1; }
	__CPROVER_assume (g_name_len <= sizeof (struct sockaddr_storage));
	memcpy (addr, g_name_bytes, sizeof (struct sockaddr_storage));
	*alen = g_name_len;
	g_name_ok = 1;
	return 0;
}
int getsockname (int fd, struct sockaddr *addr, socklen_t *alen) { INC (g_getsockname_calls); return name_result (fd, addr, alen); }
int getpeername (int fd, struct sockaddr *addr, socklen_t *alen) { INC (g_getpeername_calls); return name_result (fd, addr, alen); }
unsigned long g_binds, g_listens, g_shutdowns; int g_listen_backlog_arg, g_shutdown_how;
static int plain_result (void) { if (nondet_bool ()) { FAIL_ANY_ERRNO; g_last_fail_poll = 0; return -1; } return 0; }
int bind (int fd, const struct sockaddr *addr, socklen_t alen) { NATIVE (fd); INC (g_binds); g_addr_arg = addr; g_addr_len = alen; g_addr_family = (addr != NULL && alen >= sizeof (sa_family_t)) ? addr->sa_family : -1; return plain_result (); }
int listen (int fd, int backlog) { NATIVE (fd); INC (g_listens); g_listen_backlog_arg = backlog; return plain_result (); }
int shutdown (int fd, int how) { NATIVE (fd); INC (g_shutdowns); g_shutdown_how = how; return plain_result (); }
unsigned long g_socket_calls; int g_socket_type_arg; _Bool g_close_failed;
int socket (int domain, int type, int protocol)
{
	INC (g_socket_calls); g_socket_type_arg = type;
	ENV_REQ (!g_new_fd_live, "one descriptor per socket object");
	if (nondet_bool ()) { FAIL_ANY_ERRNO; return -1; }
	g_new_fd = nondet_int (); __CPROVER_assume (g_new_fd >= 0);
	g_new_fd_live = 1; g_new_fd_cloexec = (type & SOCK_CLOEXEC) != 0; g_new_fd_nonblock = (type & SOCK_NONBLOCK) != 0;
	return g_new_fd;
}
int close (int fd)
{
	INC (g_closes);
	/* a failing close leaves the descriptor open (the reading of POSIX the library relies on when it keeps the
	 * socket object un-closed after a failure); the state after EINTR/EIO is really unspecified -- assumption */
	if (nondet_bool ()) { ENV_REQ ((fd == g_sock_fd && g_fd_live) || (fd == g_new_fd && g_new_fd_live), "close: only a live descriptor the library owns");
	                      g_close_failed = 1; FAIL_ANY_ERRNO; g_last_fail_poll = 0; return -1; }
	if (fd == g_sock_fd && g_fd_live) { g_fd_live = 0; }
	else if (fd == g_new_fd && g_new_fd_live) { g_new_fd_live = 0; }
	else ENV_REQ (0, "close: only a live descriptor the library owns, exactly once");
	return 0;
}
/* fixed-arity stand-in for the variadic fcntl (every call site in psocket.c passes three arguments) */
int verif_fcntl (int fd, int cmd, long arg)
{
	_Bool is_new = (fd == g_new_fd && g_new_fd_live);
	ENV_REQ (is_new || (fd == g_sock_fd && g_fd_live), "fcntl on a live descriptor of the library");
	switch (cmd) {
	/* F_GETFD/F_SETFD/F_GETFL cannot fail on a valid descriptor; F_SETFL may */
	case F_GETFD: return (is_new && g_new_fd_cloexec) ? FD_CLOEXEC : 0;
	case F_SETFD: if (is_new) g_new_fd_cloexec = (arg & FD_CLOEXEC) != 0; return 0;
	case F_GETFL: return (is_new && g_new_fd_nonblock) ? (O_NONBLOCK | O_RDWR) : O_RDWR;
	case F_SETFL: if (nondet_bool ()) { FAIL_ANY_ERRNO; return -1; } if (is_new) g_new_fd_nonblock = (arg & O_NONBLOCK) != 0; return 0;
	default: ENV_REQ (0, "fcntl: only F_GETFD/F_SETFD/F_GETFL/F_SETFL"); return -1;
	}
}
#endif
