/* TRUSTED: fopen/fgets/fclose (model) -- the file is a sequence of at most INI_LINES lines, each any bytes (embedded NULs allowed by fgets are excluded: a line is a NUL-terminated string of at most INI_LINE_MAX bytes, possibly without a newline); fopen may fail */
/* TRUSTED: sscanf (model of the C scanset semantics for the formats pinifile.c uses: literals, blanks, %[^set] with at least one character) -- it is the specification of libc's sscanf here */
/* TRUSTED: isspace (C locale) */
#ifndef VERIF_ENV_STDIO_INI_C
#define VERIF_ENV_STDIO_INI_C
#include "env/verif.h"
#include <stdio.h>
#include <string.h>
#ifndef INI_LINES
#define INI_LINES 2
#endif
#ifndef INI_LINE_MAX
#define INI_LINE_MAX 12
#endif
char g_file_lines[INI_LINES][INI_LINE_MAX + 1]; unsigned g_file_nlines, g_file_pos; _Bool g_file_open; unsigned g_fopens, g_fcloses; FILE g_file_obj;
int isspace (int c) { return c == ' ' || c == '\t' || c == '\n' || c == '\v' || c == '\f' || c == '\r'; }
FILE *fopen (const char *path, const char *mode) { g_fopens++; if (nondet_bool ()) return NULL; g_file_open = 1; g_file_pos = 0; return &g_file_obj; }
int fclose (FILE *f) { ENV_REQ (f == &g_file_obj && g_file_open, "fclose: the open file, once"); g_file_open = 0; g_fcloses++; return 0; }
char *fgets (char *s, int size, FILE *f)
{
	ENV_REQ (f == &g_file_obj && g_file_open && size > INI_LINE_MAX, "fgets: on the open file with the line buffer");
	ENV_REQ (__CPROVER_w_ok (s, size), "fgets: buffer writable for its size");
	if (g_file_pos >= g_file_nlines) return NULL;
	for (unsigned i = 0; i <= INI_LINE_MAX; i++) s[i] = g_file_lines[g_file_pos][i];
	g_file_pos++;
	return s;
}
/* ---- sscanf for the four formats: interpreter over a literal format */
static int in_set (char c, const char *set, unsigned n) { for (unsigned i = 0; i < n; i++) if (set[i] == c) return 1; return 0; }
static int scan2 (const char *str, const char *fmt, char *out1, char *out2)
{
	unsigned si = 0, fi = 0; int assigned = 0;
	while (fmt[fi] != 0) {
		if (fmt[fi] == ' ') { while (isspace ((unsigned char) str[si])) si++; fi++; continue; }
		if (fmt[fi] == '%' && fmt[fi + 1] == '[' && fmt[fi + 2] == '^') {
			/* %[^set] : one or more characters not in the set; a ']' right after '^' belongs to the set */
			unsigned s0 = fi + 3, s1 = s0; if (fmt[s1] == ']') s1++; while (fmt[s1] != ']') s1++;
			char *out = assigned == 0 ? out1 : out2; unsigned n = 0;
			if (str[si] == 0) return assigned == 0 ? -1 : assigned;
			while (str[si] != 0 && !in_set (str[si], fmt + s0, s1 - s0)) { out[n++] = str[si++]; }
			if (n == 0) return assigned;
			out[n] = 0; assigned++; fi = s1 + 1; continue;
		}
		if (str[si] == 0) return assigned == 0 ? -1 : assigned;
		if (str[si] != fmt[fi]) return assigned;
		si++; fi++;
	}
	return assigned;
}
int verif_sscanf1 (const char *str, const char *fmt, char *a) { return scan2 (str, fmt, a, NULL); }
int verif_sscanf2 (const char *str, const char *fmt, char *a, char *b) { return scan2 (str, fmt, a, b); }
#define VS_SEL(_1, _2, _3, _4, NAME, ...) NAME
#define sscanf(...) VS_SEL (__VA_ARGS__, verif_sscanf2, verif_sscanf1) (__VA_ARGS__)
#endif
