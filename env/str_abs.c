/* TRUSTED: strlen/strcpy/strcat (abstract) -- one symbolic caller string (g_str, length g_str_len, content not interpreted) and string literals; strcpy/strcat check that the destination object has room for the resulting length (+NUL) and track that length in a ghost (g_buf, g_buf_len); bytes are not copied */
#ifndef VERIF_ENV_STR_ABS_C
#define VERIF_ENV_STR_ABS_C
#include "env/verif.h"
#include <string.h>
const char *g_str; size_t g_str_len;      /* the caller's name string */
char *g_buf; size_t g_buf_len;            /* the buffer being assembled, current string length */
static size_t lit_len (const char *s) { size_t n = 0; while (s[n] != 0) n++; return n; }   /* literals only: folds to a constant */
static size_t abs_len (const char *s)
{
	if (__CPROVER_same_object (s, g_str) && s == g_str) return g_str_len;
	if (g_buf != NULL && s == g_buf) return g_buf_len;
	return lit_len (s);
}
size_t strlen (const char *s) { ENV_REQ (s != NULL, "strlen: non-NULL string"); return abs_len (s); }
char *strcpy (char *d, const char *s)
{
	ENV_REQ (d != NULL && s != NULL, "strcpy: non-NULL arguments");
	size_t n = abs_len (s);
	ENV_REQ (__CPROVER_w_ok (d, n + 1), "strcpy: destination has room for the string and its NUL");
	g_buf = d; g_buf_len = n;
	return d;
}
char *strcat (char *d, const char *s)
{
	ENV_REQ (d != NULL && s != NULL && d == g_buf, "strcat: appends to the buffer being assembled");
	size_t n = abs_len (s);
	ENV_REQ (__CPROVER_w_ok (d, g_buf_len + n + 1), "strcat: destination has room for both strings and the NUL");
	g_buf_len += n;
	return d;
}
#endif
