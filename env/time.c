/* TRUSTED: clock_nanosleep/nanosleep (POSIX) -- relative sleep on the request; outcome: 0 after the full requested time; or interrupted after any part of it with the unslept remainder (0 <= rem <= req) stored in *rem -- clock_nanosleep RETURNS EINTR and leaves errno unspecified, nanosleep returns -1 and sets errno = EINTR; or another error. Ghost g_owed is the part of the requested duration not yet slept */
#ifndef VERIF_ENV_TIME_C
#define VERIF_ENV_TIME_C
#include "env/verif.h"
#include <time.h>
#include <errno.h>
#include "env/errno_stub.c"
/* time is kept in (sec, nsec) pairs with explicit borrow: no multiplication, which no installed solver handles well */
struct timespec g_owed;          /* time the caller still has to sleep to have slept the requested duration */
unsigned long g_sleep_calls; _Bool g_sleep_other_error, g_sleep_interrupted;
#define TS_VALID(ts) ((ts).tv_sec >= 0 && (ts).tv_sec <= 4294968 && (ts).tv_nsec >= 0 && (ts).tv_nsec < 1000000000L)
#define TS_LE(a, b)  ((a).tv_sec < (b).tv_sec || ((a).tv_sec == (b).tv_sec && (a).tv_nsec <= (b).tv_nsec))
#define TS_EQ(a, b)  ((a).tv_sec == (b).tv_sec && (a).tv_nsec == (b).tv_nsec)
#define TS_ZERO(a)   ((a).tv_sec == 0 && (a).tv_nsec == 0)
static struct timespec ts_sub (struct timespec a, struct timespec b)   /* a - b, saturating at 0; a, b valid */
{
	struct timespec r;
	if (TS_LE (a, b)) { r.tv_sec = 0; r.tv_nsec = 0; return r; }
	_Bool borrow = a.tv_nsec < b.tv_nsec;
	r.tv_sec = a.tv_sec - b.tv_sec - (borrow ? 1 : 0);
	r.tv_nsec = a.tv_nsec - b.tv_nsec + (borrow ? 1000000000L : 0);
	return r;
}
static int sleep_model (const struct timespec *req, struct timespec *rem, _Bool returns_code)
{
	ENV_REQ (req != NULL && TS_VALID (*req), "sleep request is a valid timespec");
	__CPROVER_assume (g_sleep_calls < (1ul << 62)); g_sleep_calls++;
	if (nondet_bool ()) { g_owed = ts_sub (g_owed, *req); if (returns_code) g_errno = nondet_int (); return 0; }   /* slept all of req */
	if (nondet_bool ()) {
		/* interrupted by a handled signal: the unslept remainder is reported */
		ENV_REQ (rem != NULL, "a remainder buffer is supplied so that the sleep can be resumed");
		struct timespec r; r.tv_sec = nondet_long (); r.tv_nsec = nondet_long ();
		__CPROVER_assume (TS_VALID (r) && TS_LE (r, *req));
		g_owed = ts_sub (g_owed, ts_sub (*req, r));   /* slept req - r */
		*rem = r; g_sleep_interrupted = 1;
		if (returns_code) { g_errno = nondet_int (); return EINTR; }   /* errno is NOT set by clock_nanosleep */
		g_errno = EINTR; return -1;
	}
	g_sleep_other_error = 1;
	int e = nondet_int (); __CPROVER_assume (e > 0 && e != EINTR);
	if (returns_code) { g_errno = nondet_int (); return e; }
	g_errno = e; return -1;
}
int clock_nanosleep (clockid_t clk, int flags, const struct timespec *req, struct timespec *rem)
{
	ENV_REQ (clk == CLOCK_MONOTONIC && flags == 0, "relative sleep on the monotonic clock");
	return sleep_model (req, rem, 1);
}
int nanosleep (const struct timespec *req, struct timespec *rem) { return sleep_model (req, rem, 0); }
#endif
