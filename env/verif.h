/* Common definitions for every harness (verification side only). */
#ifndef VERIF_H
#define VERIF_H
#include <stddef.h>
#include <stdint.h>

/* reachability canary: MUST fail; a canary that passes means the path is
 * infeasible (contradictory requires/assume) and the unit is vacuous */
#define CANARY(msg)      __CPROVER_assert(0, "CANARY: " msg)
/* named obligation of the property */
#define OBL(c, msg)      __CPROVER_assert((c), "OBL: " msg)
/* obligation raised inside an environment contract: precondition of a
 * native call as the property needs it (caller's buffer passed, fd live, ...) */
#define ENV_REQ(c, msg)  __CPROVER_assert((c), "ENV-PRE: " msg)

int            nondet_int(void);
unsigned       nondet_uint(void);
long           nondet_long(void);
unsigned long  nondet_ulong(void);
unsigned char  nondet_uchar(void);
unsigned short nondet_ushort(void);
_Bool          nondet_bool(void);
size_t         nondet_size_t(void);
void          *nondet_ptr(void);

#endif
