#!/usr/bin/env python3
"""Supporting static fact for C18: every function of the configured sources that calls an allocator directly
(p_malloc, p_malloc0, p_realloc, p_strdup) and whether a C18 unit lists it under 'functions'.  Prints a table; exit 0."""
import os, re, sys, importlib.util
sys.path.insert(0, os.path.dirname(os.path.abspath(__file__)))
import config
def load_units(p):
    path = os.path.join(config.VERIF, "props", p, "units.py")
    s = importlib.util.spec_from_file_location("scan_" + p, path); m = importlib.util.module_from_spec(s); s.loader.exec_module(m); return m.UNITS
def main():
    cfg = config.configure()
    covered = {}
    for u in load_units("C18"):
        for f in (u.get("functions") or ([u["enforce"]] if u.get("enforce") else [])):
            covered.setdefault(f, []).append(u["id"])
    rx_def = re.compile(r"^([A-Za-z_][A-Za-z0-9_]*) \(", re.M)
    out = []
    for src in sorted(cfg["sources"]):
        if src == "pmem.c": continue
        text = open(os.path.join(config.REPO, "src", src)).read()
        defs = [(m.start(), m.group(1)) for m in rx_def.finditer(text)]
        for i, (pos, name) in enumerate(defs):
            end = text.find("\n}", pos)
            body = text[pos:end if end > 0 else len(text)]
            if re.search(r"\bp_(malloc0?|realloc|strdup) \(", body) and "{" in body:
                out.append((src, name, covered.get(name)))
    # allocating functions deliberately left without a unit, with the reason (printed, and part of C18's level_note)
    ALLOW = {"p_ipc_unix_get_temp_dir": "System V / IRIX key path only: p_ipc_get_platform_key (name, FALSE) is never called by the configured POSIX semaphore / shared-memory code"}
    n_cov = sum(1 for _, _, c in out if c)
    for src, name, c in out:
        print("%-28s %-44s %s" % (src, name, ("covered by " + ", ".join(c[:3])) if c else "NOT listed by any C18 unit"))
    print("%d allocating functions in %d configured sources, %d listed by C18 units" % (len(out), len(cfg["sources"]), n_cov))
    missing = [name for _, name, c in out if not c and name not in ALLOW]
    for name in ALLOW:
        print("not covered on purpose: %s -- %s" % (name, ALLOW[name]))
    if missing:
        print("UNCOVERED: " + ", ".join(missing)); sys.exit(1)
    print("OK n=%d" % len(out))
if __name__ == "__main__":
    main()
