"""Configure /repo with cmake (configure step only) and extract the project's
compile definitions, the generated config header and the selected source list.

The result is cached under /verif/.cache keyed by a hash of every file cmake
reads (CMakeLists, cmake/, platforms/, *.in), so a change to the build
description re-configures and a change to a .c file does not."""
import hashlib, json, os, shlex, shutil, subprocess, sys

REPO = os.environ.get("VERIF_REPO", "/repo")
VERIF = os.path.dirname(os.path.dirname(os.path.abspath(__file__)))
CACHE = os.path.join(VERIF, ".cache")


def _cmake_inputs():
    files = []
    for root in ("CMakeLists.txt", "src/CMakeLists.txt", "cmake", "platforms"):
        p = os.path.join(REPO, root)
        if os.path.isfile(p):
            files.append(p)
        elif os.path.isdir(p):
            for d, _, fs in os.walk(p):
                for f in fs:
                    files.append(os.path.join(d, f))
    for f in os.listdir(os.path.join(REPO, "src")):
        if f.endswith(".in"):
            files.append(os.path.join(REPO, "src", f))
    return sorted(files)


def _key():
    h = hashlib.sha256()
    for f in _cmake_inputs():
        h.update(f.encode())
        with open(f, "rb") as fh:
            h.update(fh.read())
    return h.hexdigest()[:16]


def configure():
    """returns dict(dir, defines[list of -D..], includes[list], sources[list of basenames])"""
    key = _key()
    d = os.path.join(CACHE, "cfg-" + key)
    meta = os.path.join(d, "meta.json")
    if os.path.exists(meta):
        with open(meta) as fh:
            return json.load(fh)
    tmp = d + ".tmp%d" % os.getpid()
    shutil.rmtree(tmp, ignore_errors=True)
    os.makedirs(tmp)
    r = subprocess.run(
        ["cmake", "-S", REPO, "-B", tmp, "-G", "Ninja", "-DPLIBSYS_TESTS=OFF",
         "-DCMAKE_EXPORT_COMPILE_COMMANDS=ON", "-DCMAKE_BUILD_TYPE=RelWithDebInfo"],
        stdout=subprocess.PIPE, stderr=subprocess.STDOUT, text=True)
    if r.returncode != 0:
        sys.stderr.write(r.stdout)
        shutil.rmtree(tmp, ignore_errors=True)
        raise RuntimeError("cmake configure failed")
    with open(os.path.join(tmp, "compile_commands.json")) as fh:
        cc = json.load(fh)
    defines, sources = None, []
    for e in cc:
        f = e["file"]
        if not f.startswith(os.path.join(REPO, "src") + "/"):
            continue
        if "plibsysstatic" in e.get("output", "") or "plibsysstatic" in e["command"]:
            continue
        b = os.path.basename(f)
        if b not in sources:
            sources.append(b)
        if defines is None:
            defines = [t for t in shlex.split(e["command"]) if t.startswith("-D") and t != "-Dplibsys_EXPORTS" and t != "-DNDEBUG"]
    hdr_src = os.path.join(tmp, "src", "plibsysconfig.h")
    keep = os.path.join(tmp, "keep")
    os.makedirs(keep)
    shutil.copy(hdr_src, os.path.join(keep, "plibsysconfig.h"))
    # keep only the header; drop the rest of the cmake tree (disk)
    for n in os.listdir(tmp):
        if n != "keep":
            p = os.path.join(tmp, n)
            shutil.rmtree(p) if os.path.isdir(p) else os.remove(p)
    info = {"dir": os.path.join(d, "keep"), "defines": defines or [], "sources": sorted(sources), "key": key}
    with open(os.path.join(tmp, "meta.json"), "w") as fh:
        json.dump(info, fh, indent=1)
    try:
        os.rename(tmp, d)
    except OSError:
        shutil.rmtree(tmp, ignore_errors=True)  # lost a race; the other one is as good
    with open(meta) as fh:
        return json.load(fh)


if __name__ == "__main__":
    print(json.dumps(configure(), indent=1))
