#!/usr/bin/env python3
"""Preprocessing-context identity (supporting static fact, every run, every unit).

A harness translation unit #includes the real source after environment headers; macros those headers define (EINTR,
SOCK_CLOEXEC, ...) can switch on code that the library's own build -- the source file compiled alone -- drops, or the other
way round.  Then the verified text is not the text that ships.  For every real source of a unit this module compares the
set of source lines that survive conditional compilation
  (a) when the file is compiled alone with the project's flags (the library build) and
  (b) inside the harness translation unit with the unit's flags,
using `gcc -E -fdirectives-only` (conditionals and includes are processed, macros are not expanded, so line presence is
exactly conditional inclusion).  Any difference makes the unit UNDECIDED -- never a violation.

CLI:  python3 lib/ctxcheck.py Cxx [tier]      prints the differences of all units of a property
"""
import os, re, subprocess, sys
try:
    from . import config
except ImportError:
    sys.path.insert(0, os.path.dirname(os.path.abspath(__file__)))
    import config

GUARD = "-DPLIBSYS_VERIF"
_cache = {}


def _surviving(cmd, wanted):
    """line numbers (per wanted file, keyed by basename) that carry non-directive, non-blank text in `gcc -E -fdirectives-only` output"""
    key = tuple(cmd)
    if key not in _cache:
        p = subprocess.run(cmd, stdout=subprocess.PIPE, stderr=subprocess.PIPE, text=True, errors="replace")
        _cache[key] = (p.returncode, p.stdout, p.stderr)
    rc, out, err = _cache[key]
    if rc != 0:
        return None, err[-400:]
    res = {w: set() for w in wanted}
    cur, line = None, 0
    for l in out.split("\n"):
        m = re.match(r'# (\d+) "([^"]*)"', l)
        if m:
            line = int(m.group(1)); f = m.group(2)
            b = os.path.basename(f)
            cur = b if (b in res and os.path.dirname(os.path.abspath(f)) == os.path.join(config.REPO, "src")) else None
            continue
        if cur is not None and l.strip() and not l.lstrip().startswith("#"):
            res[cur].add(line)
        line += 1
    return res, None


def _ranges(nums):
    nums = sorted(nums); out = []
    for n in nums:
        if out and n == out[-1][1] + 1:
            out[-1][1] = n
        else:
            out.append([n, n])
    return ", ".join("%d" % a if a == b else "%d-%d" % (a, b) for a, b in out[:6]) + (" ..." if len(out) > 6 else "")


def differences(unit, prop, cfg, tier="quick", extra_defs=()):
    """list of human-readable differences (empty = identical contexts); raises nothing"""
    srcs = [s for s in unit.get("sources", []) if s.endswith(".c")]
    if not srcs or not unit.get("harness"):
        return []
    base = ["gcc", "-E", "-fdirectives-only", "-w"]
    inc = ["-I", os.path.join(config.REPO, "src"), "-I", cfg["dir"]]
    harness = os.path.join(config.VERIF, "props", prop, unit["harness"])
    hcmd = base + ["-I", config.VERIF, "-I", os.path.join(config.VERIF, "props", prop)] + inc + cfg["defines"] + [GUARD, "-D__NO_CTYPE"] + \
        ["-D" + d for d in unit.get("defines", []) + unit.get("defines_" + tier, [])] + ["-D" + d for d in extra_defs] + [harness]
    hres, herr = _surviving(hcmd, srcs)
    if hres is None:
        return ["harness does not preprocess with gcc: " + herr]
    out = []
    for s in srcs:
        rres, rerr = _surviving(base + inc + cfg["defines"] + [os.path.join(config.REPO, "src", s)], [s])
        if rres is None:
            out.append("%s does not preprocess alone: %s" % (s, rerr)); continue
        lib, har = rres[s], hres[s]
        if not har:
            continue            # the harness does not include this source (listed only for the scratch copy)
        only_h, only_l = har - lib, lib - har
        if only_h:
            out.append("%s: line(s) %s are compiled inside the harness but dropped by the library build" % (s, _ranges(only_h)))
        if only_l:
            out.append("%s: line(s) %s are compiled by the library build but dropped inside the harness" % (s, _ranges(only_l)))
    return out


if __name__ == "__main__":
    import importlib.util
    prop = sys.argv[1]; tier = sys.argv[2] if len(sys.argv) > 2 else "quick"
    spec = importlib.util.spec_from_file_location("cu_" + prop, os.path.join(config.VERIF, "props", prop, "units.py"))
    mod = importlib.util.module_from_spec(spec); spec.loader.exec_module(mod)
    cfg = config.configure(); bad = 0
    for u in mod.UNITS:
        d = differences(u, prop, cfg, tier)
        if d:
            bad += 1; print(u["id"]); [print("   " + x) for x in d]
    print("%s: %d unit(s), %d with a context difference" % (prop, len(mod.UNITS), bad))
