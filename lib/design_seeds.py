#!/usr/bin/env python3
"""Rewrites the seeded-change table of DESIGN.md (between the SEEDS markers) from seeded/*/meta.json."""
import json, os
rows = []; n = miss = nov = out = 0
for d in sorted(os.listdir('/verif/seeded')):
    m = json.load(open('/verif/seeded/%s/meta.json' % d)); r = m.get('check_result', ''); note = ''
    n += 1
    if r.startswith('MISSED') or 'first run: UNDECIDED' in r: note = 'first miss'; miss += 1
    if 'NOT A VIOLATION' in r: note = 'no violation after fix'; nov += 1
    if r.startswith('NOT CAUGHT'): note = 'not caught'; out += 1
    r = r.replace('|', '/')
    if len(r) > 330: r = r[:327] + '...'
    rows.append("| `%s` | %s | %s |" % (d, r, note))
f = '/verif/DESIGN.md'; s = open(f).read()
a = s.index("<!--SEEDS-BEGIN-->"); b = s.index("<!--SEEDS-END-->")
summary = ("\nOf %d: %d reported at once, %d after a strengthening that the miss motivated (§10), %d not caught (beyond the bound, or the check ends UNDECIDED), %d is no violation on the repaired tree (C14).\n" % (n, n - miss - nov - out, miss, out, nov))
s = s[:a] + "<!--SEEDS-BEGIN-->\n| seeded change | reported by (unit: obligation) | note |\n|---|---|---|\n" + "\n".join(rows) + "\n" + summary + s[b:]
open(f, 'w').write(s)
print(summary)
