#!/usr/bin/env python3
"""Rewrites the evidence summary table of DESIGN.md (between the TABLE markers) from /verif/evidence/*.json."""
import json, re
rows = ["| id | level | units (with a stated bound) | obligations discharged / total | canaries fired / required | wall s (quick, 16 cores) | known-finding lines |", "|---|---|---|---|---|---|---|"]
for i in range(1, 21):
    p = "C%02d" % i; e = json.load(open('/verif/evidence/%s.json' % p)); c = e['coverage']; us = c['units']
    assert e['tier'] == 'quick' and c['discharged'] == c['obligations'], p
    rows.append("| %s | %s | %d (%d) | %d / %d | %d / %d | %d | %d |" % (p, e['level'], len(us), sum(1 for u in us if u.get('bound')), c['discharged'], c['obligations'],
                sum(u.get('canaries_fired', 0) for u in us), sum(u.get('canaries_required', 0) for u in us), int(round(e.get('wall_s', 0))), len(c.get('known_findings_reported', []) or e.get('known_findings_reported', []) or [])))
f = '/verif/DESIGN.md'; s = open(f).read()
a = s.index("<!--TABLE-BEGIN-->"); b = s.index("<!--TABLE-END-->")
s = s[:a] + "<!--TABLE-BEGIN-->\n" + "\n".join(rows) + "\n" + s[b:]
open(f, 'w').write(s)
print("\n".join(rows))
