"""Driver: runs the obligation units of one property through
goto-cc -> goto-instrument (--dfcc / loop contracts) -> cbmc, classifies every
obligation, replays counterexamples natively, writes the evidence file.

exit 0 = every obligation of every unit discharged (known findings printed as
KNOWN-FINDING), exit 1 = violation (VIOLATION line printed), exit 2 = undecided
(tool limit, timeout, vacuity guard, injection rule) -- never reported as a
violation."""
import concurrent.futures as cf
import hashlib, importlib.util, json, os, re, resource, shutil, subprocess, sys, time

from . import config, inject, ctxcheck

VERIF = config.VERIF
REPO = config.REPO
WORK = os.path.join(VERIF, ".work")
EVID = os.environ.get("VERIF_EVIDENCE_DIR") or os.path.join(VERIF, "evidence")   # VERIF_EVIDENCE_DIR: seeded-change runs (bin/seedtest_wt) write elsewhere
REPLAY_DIR = os.path.join(EVID, "replay")

BASE_CHECKS = ["--bounds-check", "--pointer-check", "--signed-overflow-check",
               "--div-by-zero-check", "--undefined-shift-check"]
GUARD = "-DPLIBSYS_VERIF"

LEVELS = {}  # property -> level, filled from MANIFEST


def load_units(prop):
    path = os.path.join(VERIF, "props", prop, "units.py")
    spec = importlib.util.spec_from_file_location("units_" + prop, path)
    mod = importlib.util.module_from_spec(spec)
    spec.loader.exec_module(mod)
    return mod


def load_known():
    p = os.path.join(VERIF, "known_findings.json")
    if not os.path.exists(p):
        return {"findings": [], "fixed": []}
    with open(p) as fh:
        return json.load(fh)


def sha256(path):
    h = hashlib.sha256()
    with open(path, "rb") as fh:
        h.update(fh.read())
    return h.hexdigest()


def _limits(mem_gb):
    def f():
        b = int(mem_gb * (1 << 30))
        resource.setrlimit(resource.RLIMIT_AS, (b, b))
        os.setsid()
    return f


def run(cmd, timeout, mem_gb=8, cwd=None, stdout_path=None):
    t0 = time.time()
    out = open(stdout_path, "w") if stdout_path else subprocess.PIPE
    try:
        p = subprocess.Popen(cmd, stdout=out, stderr=subprocess.PIPE if stdout_path else subprocess.STDOUT,
                             cwd=cwd, preexec_fn=_limits(mem_gb), text=True)
        try:
            so, se = p.communicate(timeout=timeout)
            rc = p.returncode
        except subprocess.TimeoutExpired:
            try:
                os.killpg(p.pid, 9)
            except Exception:
                p.kill()
            so, se = p.communicate()
            rc = "timeout"
    finally:
        if stdout_path:
            out.close()
    return rc, (so or "") + (se or ""), time.time() - t0


class Undecided(Exception):
    pass


def prepare_sources(unit, wdir):
    """copy the real sources byte-for-byte, inject loop contracts, verify identity"""
    sdir = os.path.join(wdir, "src")
    os.makedirs(sdir, exist_ok=True)
    shas = {}
    reports = []
    loops = unit.get("loops", {})
    for f in unit["sources"]:
        src_path = os.path.join(REPO, "src", f)
        if not os.path.exists(src_path):
            raise Undecided("source file %s missing" % f)
        with open(src_path, encoding="utf-8", errors="surrogateescape") as fh:
            text = fh.read()
        shas[f] = sha256(src_path)
        new = text
        if f in loops:
            try:
                new, rep = inject.inject(text, loops[f])
            except inject.InjectError as e:
                raise Undecided("loop-contract injection: %s" % e)
            reports += [dict(r, file=f) for r in rep]
            if inject.strip(new) != text:
                raise Undecided("identity check failed for %s" % f)
        with open(os.path.join(sdir, f), "w", encoding="utf-8", errors="surrogateescape") as fh:
            fh.write(new)
    for f in loops:
        if f not in unit["sources"]:
            raise Undecided("loops given for %s which is not in sources" % f)
    return sdir, shas, reports


def build_goto(unit, prop, cfg, wdir, sdir, extra_defs, tier="quick"):
    harness = os.path.join(VERIF, "props", prop, unit["harness"])
    a = os.path.join(wdir, "a.gb")
    cmd = ["goto-cc", "--function", unit["entry"], "-I", sdir, "-I", VERIF, "-I", os.path.join(VERIF, "props", prop),
           "-I", os.path.join(REPO, "src"), "-I", cfg["dir"]] + cfg["defines"] + [GUARD, "-D__NO_CTYPE"] + \
          ["-D" + d for d in unit.get("defines", []) + unit.get("defines_" + tier, [])] + ["-D" + d for d in extra_defs] + [harness, "-o", a]
    rc, out, _ = run(cmd, 300)
    if rc != 0:
        raise Undecided("goto-cc failed: " + out[-1500:])
    cur = a
    enforce = unit.get("enforce")
    nloops = sum(1 for f in unit.get("loops", {}).values() for fs in f.values() for k in fs if k != "nloops")
    gi_cmd = None
    if enforce or nloops or unit.get("replace"):
        b = os.path.join(wdir, "b.gb")
        gi_cmd = ["goto-instrument", "--dfcc", unit["entry"]]
        if enforce:
            gi_cmd += ["--enforce-contract", enforce]
        for g in unit.get("replace", []):
            gi_cmd += ["--replace-call-with-contract", g]
        if nloops:
            gi_cmd += ["--apply-loop-contracts"]
        gi_cmd += unit.get("gi_flags", [])
        gi_cmd += [a, b]
        rc, out, _ = run(gi_cmd, 600, mem_gb=12)
        if rc != 0:
            raise Undecided("goto-instrument failed: " + out[-2500:])
        cur = b
    return cur, cmd, gi_cmd


def parse_cbmc(path):
    try:
        with open(path) as fh:
            data = json.load(fh)
    except Exception as e:
        raise Undecided("cbmc output not parseable: %s" % e)
    results, msgs, status = [], [], None
    for e in data:
        if "result" in e:
            results = e["result"]
        elif "cProverStatus" in e:
            status = e["cProverStatus"]
        elif "messageText" in e:
            msgs.append(e["messageText"])
    return results, msgs, status


RES_RE = re.compile(r"^\[([^\]]+)\] (?:line (\d+) )?(.*): (SUCCESS|FAILURE|UNKNOWN|ERROR)$")
LOC_RE = re.compile(r"^(\S.*) function (\S+)$")


def parse_cbmc_text(path):
    """plain-text UI (the json/xml UIs always build traces for failed properties,
    and cbmc 6.11's trace builder crashes on havoc_slice'd objects -- canaries
    fail by design, so the main run must not build traces)"""
    results, msgs = [], []
    cur_file = cur_fn = None
    with open(path, errors="replace") as fh:
        for line in fh:
            line = line.rstrip("\n")
            m = RES_RE.match(line)
            if m:
                results.append({"property": m.group(1), "description": m.group(3), "status": m.group(4),
                                "sourceLocation": {"file": cur_file, "function": cur_fn, "line": m.group(2)}})
                continue
            m = LOC_RE.match(line)
            if m:
                cur_file, cur_fn = m.group(1), m.group(2)
                continue
            if line.strip():
                msgs.append(line)
    status = None
    for l in msgs[-5:]:
        if "VERIFICATION SUCCESSFUL" in l:
            status = "success"
        if "VERIFICATION FAILED" in l:
            status = "failure"
    if status is None:
        raise Undecided("cbmc did not finish: " + " | ".join(msgs[-6:])[-900:])
    return results, msgs, status


def trace_inputs(trace, entry):
    """compact view of a counterexample: last value of every named variable
    assigned in the harness or the environment (internal DFCC symbols dropped)"""
    vals, order = {}, []
    harness_names = set()
    for s in trace or []:
        if s.get("stepType") == "assignment" and s.get("sourceLocation", {}).get("function", "") == entry:
            harness_names.add(s.get("lhs", ""))
    for s in trace or []:
        if s.get("stepType") != "assignment" or s.get("hidden"):
            continue
        lhs = s.get("lhs", "")
        if not lhs or lhs.startswith("__") or "$" in lhs or "dfcc" in lhs or lhs.startswith("return_value"):
            continue
        v = s.get("value", {})
        d = v.get("data")
        if d is None:
            continue
        fn = s.get("sourceLocation", {}).get("function", "")
        # harness variables and globals keep their plain name; locals/parameters of other functions are qualified
        key = lhs
        if fn and fn != entry and not lhs.startswith("g_") and not lhs.startswith("ns_") and lhs in harness_names:
            key = fn + "::" + lhs
        if key not in vals:
            order.append(key)
        vals[key] = {"value": d, "function": fn, "line": s.get("sourceLocation", {}).get("line")}
    return {k: vals[k] for k in order}


UNWIND_RE = re.compile(r"unwinding assertion|recursion unwinding", re.I)


def classify(results, unit):
    """-> (obligations, discharged, canaries_required, canaries_fired, failed[list], undecided_reason|None)"""
    obl = dis = creq = cfired = 0
    failed, und = [], None
    for r in results:
        desc = r.get("description", "")
        st = r.get("status")
        if desc.startswith("CANARY"):
            creq += 1
            if st == "FAILURE":
                cfired += 1
            elif not unit.get("_kf_only"):
                und = "canary not reachable (vacuous): " + desc
            continue
        obl += 1
        if st == "SUCCESS":
            dis += 1
        elif st == "FAILURE":
            if UNWIND_RE.search(desc) or ".unwind." in r.get("property", "") or ".recursion" in r.get("property", ""):
                und = "unwinding assertion failed (bound too small): " + r.get("property", "")
            else:
                failed.append(r)
        else:
            und = "obligation %s has status %s" % (r.get("property"), st)
    return obl, dis, creq, cfired, failed, und


def run_native_unit(unit, prop, rundir):
    """kind=native: a finite domain enumerated completely by a compiled C program (used where every installed
    solver fails, e.g. 32-bit multiply/divide identities); it must print 'OK n=<cases>'"""
    t0 = time.time()
    res = {"id": unit["id"], "unit": unit["id"], "enforce": None, "replaced": [], "bound": unit.get("bound"), "status": "undecided", "reason": None,
           "obligations": 1, "discharged": 0, "canaries_required": 0, "canaries_fired": 0, "failed": [], "backend": "native exhaustive enumeration (gcc -O2)",
           "solver_s": None, "loops": [], "source_sha256": {}, "functions": [], "samples": [], "named": 0}
    src = os.path.join(VERIF, "props", prop, unit["harness"])
    exe = os.path.join(rundir, unit["id"] + ".exe")
    rc, out, _ = run(["gcc", "-O2", "-o", exe, src], 120, mem_gb=16)
    if rc != 0:
        res["reason"] = "native unit did not compile: " + out[-300:]
    else:
        rc, out, dt = run([exe], unit.get("timeout", 600), mem_gb=16)
        res["solver_s"] = round(dt, 2)
        m = re.search(r"OK n=(\d+)", out or "")
        if rc == 0 and m:
            res.update(status="holds", discharged=1, named=1, samples=[(unit["id"], "exhaustive native enumeration of %s cases: %s" % (m.group(1), unit.get("what", "")))])
        elif rc == "timeout":
            res["reason"] = "native unit timeout"
        else:
            res.update(status="violation", failed=[{"property": unit["id"], "description": "native exhaustive check failed: " + (out or "")[-200:], "location": {}, "inputs": {}}])
        try:
            os.remove(exe)
        except OSError:
            pass
    res["checker_cmd"] = "gcc -O2 %s && ./a.out" % os.path.relpath(src, VERIF)
    res["wall_s"] = round(time.time() - t0, 2)
    return res


def run_static_unit(unit, prop, rundir):
    """kind=static: a supporting static fact computed by a script under lib/ from /repo's current sources (e.g. the list of
    allocating functions vs. the functions the units cover).  It proves nothing about behaviour: 'OK n=<items>' lets the
    check go on, anything else makes the property UNDECIDED (never a violation)."""
    t0 = time.time()
    res = {"id": unit["id"], "unit": unit["id"], "enforce": None, "replaced": [], "bound": unit.get("bound"), "status": "undecided", "reason": None,
           "obligations": 1, "discharged": 0, "canaries_required": 0, "canaries_fired": 0, "failed": [], "backend": "static scan (python)",
           "solver_s": None, "loops": [], "source_sha256": {}, "functions": [], "samples": [], "named": 0}
    script = os.path.join(VERIF, "lib", unit["script"])
    rc, out, dt = run([sys.executable, script], unit.get("timeout", 120), mem_gb=4)
    m = re.search(r"OK n=(\d+)", out or "")
    if rc == 0 and m:
        res.update(status="holds", discharged=1, named=1, samples=[(unit["id"], "static fact over %s items: %s" % (m.group(1), unit.get("what", "")))])
    else:
        res["reason"] = "static fact does not hold: " + " | ".join((out or "").strip().splitlines()[-3:])[-400:]
    res["checker_cmd"] = "python3 lib/%s" % unit["script"]
    res["wall_s"] = round(time.time() - t0, 2)
    return res


def run_unit(unit, prop, tier, cfg, rundir, extra_defs=(), tag=""):
    """returns a result dict; never raises"""
    if unit.get("kind") == "native":
        return run_native_unit(unit, prop, rundir)
    if unit.get("kind") == "static":
        return run_static_unit(unit, prop, rundir)
    t0 = time.time()
    uid = unit["id"] + (("@" + tag) if tag else "")
    if tag.startswith("kf-"):
        unit = dict(unit, _kf_only=True)  # a restricted region need not reach every canary
    wdir = os.path.join(rundir, uid.replace("/", "_"))
    os.makedirs(wdir, exist_ok=True)
    res = {"id": uid, "unit": unit["id"], "enforce": unit.get("enforce"), "replaced": unit.get("replace", []),
           "bound": unit.get("bound"), "status": "undecided", "reason": None, "obligations": 0, "discharged": 0,
           "canaries_required": 0, "canaries_fired": 0, "failed": [], "backend": None, "solver_s": None,
           "loops": [], "source_sha256": {}, "functions": unit.get("functions", [unit.get("enforce")] if unit.get("enforce") else [])}
    try:
        sdir, shas, reports = prepare_sources(unit, wdir)
        res["source_sha256"] = shas
        res["loops"] = reports
        # the verified text must be the text that ships: same conditional compilation inside the harness as in the library build
        diffs = ctxcheck.differences(unit, prop, cfg, tier, list(extra_defs))
        if diffs:
            raise Undecided("preprocessing context of the harness differs from the library build: " + " | ".join(diffs)[:700])
        gb, cc_cmd, gi_cmd = build_goto(unit, prop, cfg, wdir, sdir, list(extra_defs), tier)
        if isinstance(unit.get("bound"), dict):
            res["bound"] = unit["bound"].get(tier)
        flags = list(unit.get("checks", BASE_CHECKS)) + unit.get("cbmc_flags", [])
        if tier == "thorough":
            flags += unit.get("cbmc_flags_thorough", [])
        else:
            flags += unit.get("cbmc_flags_quick", [])
        backend = "minisat(default)"
        for i, f in enumerate(flags):
            if f == "--sat-solver":
                backend = flags[i + 1]
            if f in ("--cvc5", "--z3"):
                backend = f[2:]
        res["backend"] = backend
        out_json = os.path.join(wdir, "out.txt")
        cmd = ["cbmc", "--drop-unused-functions"] + flags + [gb]
        res["checker_cmd"] = " ".join((gi_cmd or ["(no goto-instrument)"])[:-2] + ["&&"] + cmd[:-1])
        timeout = unit.get("timeout_thorough", unit.get("timeout", 600)) if tier == "thorough" else unit.get("timeout", 600)
        rc, err, dt = run(cmd, timeout, mem_gb=unit.get("mem_gb", 10), stdout_path=out_json)
        res["solver_s"] = round(dt, 2)
        if rc == "timeout":
            raise Undecided("cbmc timeout after %ds" % timeout)
        if rc not in (0, 10):
            raise Undecided("cbmc exit %s: %s" % (rc, (err or "")[-800:]))
        results, msgs, status = parse_cbmc_text(out_json)
        for m in msgs:
            if "ignoring" in m and ("forall" in m or "exists" in m or "quantif" in m):
                raise Undecided("quantifier ignored by back end: " + m)
        if not results:
            raise Undecided("cbmc produced no obligations (%s)" % (msgs[-3:] if msgs else ""))
        obl, dis, creq, cfired, failed, und = classify(results, unit)
        res.update(obligations=obl, discharged=dis, canaries_required=creq, canaries_fired=cfired)
        names = [r.get("property", "") for r in results]
        res["samples"] = [(r.get("property"), r.get("description")) for r in results
                          if re.search(r"postcondition|OBL|precondition|loop_invariant", r.get("property", "") + r.get("description", ""))][:6]
        res["named"] = sum(1 for r in results if r.get("status") == "SUCCESS" and re.search(
            r"postcondition|precondition|loop_invariant|loop_assigns|loop-contract|assigns|OBL|ENV", r.get("property", "") + " " + r.get("description", "")))
        # vacuity guards
        if creq < unit.get("canaries", 1):
            und = und or "harness has %d canaries, %d required" % (creq, unit.get("canaries", 1))
        n_inv = sum(1 for r in reports if r["clauses"])
        inj_fns = set(r["function"] for r in reports) | set(r["function"] + "_wrapped_for_contract_checking" for r in reports)
        # cbmc 6.11 names the obligations of a condition-less loop (for(;;)) just "<fn>.<N>: assertion"
        anon = sum(1 for r in results if r.get("description") == "assertion" and r.get("property", "").rsplit(".", 1)[0] in inj_fns)
        for r in results:
            if r.get("description") == "assertion" and r.get("property", "").rsplit(".", 1)[0] in inj_fns:
                r["description"] = "loop-contract obligation (invariant base/step, assigns or decreases) of a condition-less loop in " + r["property"].rsplit(".", 1)[0]
        vanished = any(r.get("kind") == "vanished" for r in reports)   # a loop the contracts were written for no longer exists: nothing to close, the obligations decide
        if n_inv and not vanished and sum(1 for n in names if "loop_invariant_step" in n or "loop_step" in n) + anon < 1:
            # dfcc names: <fn>.loop_invariant_step.N
            und = und or "loop contract silently dropped (no loop_invariant_step obligation)"
        if unit.get("enforce") and not unit.get("no_post") and not any(
                n.startswith(unit["enforce"] + ".postcondition") for n in names):
            und = und or "no postcondition obligation for %s" % unit["enforce"]
        if obl < unit.get("min_obligations", 1):
            und = und or "only %d obligations, expected >= %d" % (obl, unit.get("min_obligations", 1))
        traces = {}
        if failed:
            # second run for the counterexample only (cbmc's trace printer can hit an
            # internal invariant on havoc_slice'd memory; then the failure stands without inputs)
            tj = os.path.join(wdir, "trace.json")
            rc2, _, _ = run(cmd[:1] + ["--json-ui", "--trace"] + cmd[1:], timeout, mem_gb=unit.get("mem_gb", 10), stdout_path=tj)
            if rc2 in (0, 10):
                try:
                    r2, _, _ = parse_cbmc(tj)
                    traces = {r.get("property"): r.get("trace") for r in r2 if r.get("status") == "FAILURE"}
                except Undecided:
                    pass
        for r in failed:
            res["failed"].append({"property": r.get("property"), "description": r.get("description"),
                                  "location": r.get("sourceLocation", {}),
                                  "inputs": trace_inputs(traces.get(r.get("property")), unit["entry"])})
        if failed:
            res["status"] = "violation"
        elif und:
            raise Undecided(und)
        else:
            res["status"] = "holds"
    except Undecided as e:
        res["status"] = "undecided"
        res["reason"] = str(e)
    except Exception as e:  # tool/infra problem: undecided, never a violation
        res["status"] = "undecided"
        res["reason"] = "driver error: %r" % (e,)
    res["wall_s"] = round(time.time() - t0, 2)
    if not os.environ.get("VERIF_KEEP"):
        shutil.rmtree(wdir, ignore_errors=True)
    return res


# ---------------------------------------------------------------- replay

def native_replay(prop, unit, failure, cfg, rundir):
    """compile the unit's native replay driver against the real sources (gcc,
    ASan+UBSan) and run it on the counterexample's inputs."""
    rps = unit.get("replay")
    if not rps:
        return None, "no native replay driver for this unit"
    if isinstance(rps, dict):
        rps = [rps]
    # a replay entry may be restricted to the obligations it can reproduce ('only_for': substrings of the obligation text)
    text = (failure.get("property") or "") + " " + (failure.get("description") or "")
    # 'kf_region': the entry reproduces a KNOWN finding and is meaningful only in the run restricted to that finding's region
    rps = [r for r in rps if not r.get("kf_region") or unit.get("_kf_only")]
    rp = next((r for r in rps if not r.get("only_for") or any(k in text for k in r["only_for"])), None)
    if rp is None:
        return None, "the unit's native replay drivers cover other obligations, not this one"
    drv = os.path.join(VERIF, "replay", rp["driver"])
    exe = os.path.join(rundir, "replay_%s_%d" % (unit["id"].replace("/", "_"), os.getpid()))
    san = rp.get("sanitize", "address,undefined")
    base = ["gcc", "-g", "-O0", "-fsanitize=" + san, "-fno-omit-frame-pointer", "-w",
            "-I", os.path.join(REPO, "src"), "-I", cfg["dir"], "-I", VERIF] + cfg["defines"]
    names = rp.get("sources", "all")
    if names == "all":
        names = cfg["sources"]
    elif isinstance(names, dict):
        names = [n for n in cfg["sources"] if n not in names.get("all_except", [])] + names.get("plus", [])
    odir = os.path.join(rundir, "nat_%s_%d" % (unit["id"].replace("/", "_"), os.getpid()))
    os.makedirs(odir, exist_ok=True)

    def cc(s):
        o = os.path.join(odir, s + ".o")
        return o, run(base + ["-c", os.path.join(REPO, "src", s), "-o", o], 300, mem_gb=64)
    objs = []
    with cf.ThreadPoolExecutor(max_workers=12) as ex:
        for o, (rc, out, _) in ex.map(cc, names):
            if rc != 0:
                shutil.rmtree(odir, ignore_errors=True)
                return None, "real source did not compile natively: " + out[-600:]
            objs.append(o)
    cmd = base + ["-D" + d for d in rp.get("defines", [])] + [drv] + objs + ["-o", exe, "-lpthread", "-ldl", "-lrt", "-lm"]
    rc, out, _ = run(cmd, 300, mem_gb=64)
    shutil.rmtree(odir, ignore_errors=True)
    if rc != 0:
        return None, "replay driver did not compile: " + out[-600:]
    args = [rp.get("mode", unit["id"])] + list(rp.get("fixed_args", []))
    inputs = failure.get("inputs", {})
    for name in rp.get("args", []):
        if name in inputs:
            args.append("%s=%s" % (name, inputs[name]["value"]))
    env = dict(os.environ, ASAN_OPTIONS="detect_leaks=%d:abort_on_error=0" % (1 if rp.get("leaks") else 0), UBSAN_OPTIONS="print_stacktrace=0")
    try:
        p = subprocess.run([exe] + args, stdout=subprocess.PIPE, stderr=subprocess.STDOUT, text=True,
                           timeout=rp.get("timeout", 120), env=env)
        out = p.stdout
    except subprocess.TimeoutExpired:
        out = "replay timeout"
    finally:
        try:
            os.remove(exe)
        except OSError:
            pass
    ok = ("REPRODUCED" in out and "NOT-REPRODUCED" not in out) or "AddressSanitizer" in out or "runtime error:" in out
    return ok, {"argv": args, "output": out[-3000:]}


def pick_failure(failed):
    """the obligation reported first: a named one (postcondition / OBL / ENV-PRE /
    loop invariant) before generated pointer/overflow checks"""
    def rank(f):
        t = (f.get("property") or "") + " " + (f.get("description") or "")
        if re.search(r"postcondition|OBL|ENV-PRE", t):
            return 0
        if re.search(r"precondition|loop_invariant|assigns", t):
            return 1
        return 2
    return sorted(failed, key=rank)[0]


def write_replay(prop, unit, failure, replay_ok, replay_info, checker_cmd, all_failed=()):
    os.makedirs(REPLAY_DIR, exist_ok=True)
    name = "%s-%s.json" % (prop, unit["id"])
    path = os.path.join(REPLAY_DIR, name)
    with open(path, "w") as fh:
        json.dump({"property": prop, "unit": unit["id"], "obligation": failure["property"],
                   "description": failure["description"], "source_location": failure.get("location"),
                   "checker_cmd": checker_cmd, "counterexample_inputs": failure.get("inputs"),
                   "native_replay": {"reproduced": replay_ok, "detail": replay_info},
                   "all_failed_obligations": [{"obligation": f["property"], "description": f["description"],
                                               "source_location": f.get("location")} for f in all_failed]}, fh, indent=1)
    return path


# ---------------------------------------------------------------- main

def select_units(mod, tier, only=None):
    units = []
    for u in mod.UNITS:
        tiers = u.get("tiers", ["quick", "thorough"])
        if tier in tiers and (not only or u["id"] in only):
            units.append(u)
    return units


def check_property(prop, tier, only=None, jobs=None, quiet=False):
    t0 = time.time()
    mod = load_units(prop)
    level = getattr(mod, "LEVEL", "proof")
    cfg = config.configure()
    rundir = os.path.join(WORK, "%s-%d" % (prop, os.getpid()))
    shutil.rmtree(rundir, ignore_errors=True)
    os.makedirs(rundir)
    known = load_known()
    kf_by_unit = {}
    for k in known.get("findings", []):
        if k["property"] == prop:
            kf_by_unit.setdefault(k["unit"], []).append(k)
    # static facts (configured source list)
    static_problems = []
    for f in getattr(mod, "REQUIRE_CONFIGURED", []):
        if f not in cfg["sources"]:
            static_problems.append("configured source list does not contain %s" % f)
    units = select_units(mod, tier, only)
    jobs_list = []
    for u in units:
        kfs = kf_by_unit.get(u["id"], [])
        if kfs:
            jobs_list.append((u, ["KF_EXCLUDE_" + k["id"] for k in kfs], "main"))
            for k in kfs:
                jobs_list.append((u, ["KF_ONLY_" + k["id"]], "kf-" + k["id"]))
        else:
            jobs_list.append((u, [], ""))
    results = []
    nj = jobs or int(os.environ.get("VERIF_JOBS", "14"))
    with cf.ThreadPoolExecutor(max_workers=nj) as ex:
        futs = {ex.submit(run_unit, u, prop, tier, cfg, rundir, defs, tag): (u, defs, tag) for (u, defs, tag) in jobs_list}
        for fu in cf.as_completed(futs):
            u, defs, tag = futs[fu]
            r = fu.result()
            r["_unit"] = u
            r["_tag"] = tag
            results.append(r)
            if not quiet:
                print("  unit %-40s %-9s obl=%d/%d canaries=%d/%d %.1fs %s" % (
                    r["id"], r["status"], r["discharged"], r["obligations"], r["canaries_fired"],
                    r["canaries_required"], r["wall_s"], (r["reason"] or "")[:160].replace("\n", " | ")), flush=True)
    results.sort(key=lambda r: r["id"])
    exit_code = 0
    violations, undecided, kf_lines = [], [], []
    for r in results:
        u, tag = r["_unit"], r["_tag"]
        if tag.startswith("kf-"):
            kid = tag[3:]
            k = [x for x in kf_by_unit[u["id"]] if x["id"] == kid][0]
            if r["status"] == "violation":
                # only the obligations the entry names are the known finding; anything else failing in the
                # same region is a different violation and is reported as such
                exp = k.get("expect", [])
                def known(f):
                    t = (f.get("property") or "") + " " + (f.get("description") or "")
                    return any(e in t for e in exp) if exp else True
                other = [f for f in r["failed"] if not known(f)]
                if any(known(f) for f in r["failed"]):
                    kf_lines.append("KNOWN-FINDING: property=%s %s [unit %s, obligations %s]" % (
                        prop, k["what"], u["id"], ",".join(f["property"] for f in r["failed"] if known(f))[:200]))
                if other:
                    r2 = dict(r, failed=other)
                    f = pick_failure(other)
                    ok, info = native_replay(prop, u, f, cfg, rundir)
                    path = write_replay(prop, u, f, ok, info, r.get("checker_cmd"), other)
                    violations.append((r2, f, ok, path))
            elif r["status"] == "holds":
                kf_lines.append("NOTE: known finding %s of %s no longer fails (stale entry)" % (kid, prop))
            else:
                undecided.append(r)
            continue
        if r["status"] == "violation":
            f = pick_failure(r["failed"])
            ok, info = native_replay(prop, u, f, cfg, rundir)
            path = write_replay(prop, u, f, ok, info, r.get("checker_cmd"), r["failed"])
            violations.append((r, f, ok, path))
        elif r["status"] == "undecided":
            undecided.append(r)
    for p in static_problems:
        undecided.append({"id": "static", "reason": p})
    for l in kf_lines:
        print(l)
    for r, f, ok, path in violations:
        print("  unit %s: %d failed obligation(s); first: %s: %s" % (r["unit"], len(r["failed"]), f["property"], f["description"]))
        for g in r["failed"][1:6]:
            print("      also: %s: %s" % (g["property"], g["description"]))
        print("VIOLATION property=%s replay=%s%s" % (prop, path, "" if ok else " no-failing-input-found"))
    for r in undecided:
        print("UNDECIDED property=%s unit=%s reason=%s" % (prop, r["id"], (r.get("reason") or "")[:400].replace("\n", " | ")))
    if violations:
        exit_code = 1
    elif undecided:
        exit_code = 2
    write_evidence(prop, tier, level, mod, results, violations, undecided, kf_lines, time.time() - t0, cfg)
    if not os.environ.get("VERIF_KEEP"):
        shutil.rmtree(rundir, ignore_errors=True)
    try:
        os.rmdir(WORK)
    except OSError:
        pass
    return exit_code


def scan_trusted(prop, units):
    """mechanical scan: TRUSTED: lines of every env/spec file a harness includes,
    and every __CPROVER_assume in harness files."""
    trusted, assumes = [], []
    seen = set()
    for u in units:
        h = os.path.join(VERIF, "props", prop, u["harness"])
        stack = [h]
        while stack:
            f = stack.pop()
            if f in seen or not os.path.isfile(f):
                continue
            seen.add(f)
            with open(f, errors="replace") as fh:
                txt = fh.read()
            for m in re.finditer(r'#\s*include\s+"((?:env|spec|props)/[^"]+|[^"/]+\.h)"', txt):
                for base in (VERIF, os.path.join(VERIF, "props", prop)):
                    p = os.path.join(base, m.group(1))
                    if os.path.exists(p):
                        stack.append(p)
            for m in re.finditer(r"TRUSTED:\s*(.+)", txt):
                t = m.group(1).strip().rstrip("*/").strip()
                if t not in trusted:
                    trusted.append(t)
            rel = os.path.relpath(f, VERIF)
            n = len(re.findall(r"__CPROVER_assume\s*\(", txt))
            if n:
                assumes.append("%s: %d __CPROVER_assume (harness input constraints / env postconditions)" % (rel, n))
    return trusted, assumes


def write_evidence(prop, tier, level, mod, results, violations, undecided, kf_lines, wall, cfg):
    os.makedirs(EVID, exist_ok=True)
    main = [r for r in results if not r["_tag"].startswith("kf-")]
    obl = sum(r["obligations"] for r in main)
    dis = sum(r["discharged"] for r in main)
    units = [r["_unit"] for r in main]
    trusted, assumes = scan_trusted(prop, units)
    replaced_unproved = []
    enforced = set(r["enforce"] for r in main if r["enforce"] and r["status"] == "holds")
    for r in main:
        for g in r["replaced"]:
            if g not in enforced:
                s = "contract of %s used by replacement in unit %s but not enforced in this run" % (g, r["unit"])
                if s not in replaced_unproved:
                    replaced_unproved.append(s)
    funcs = []
    for r in main:
        for f in r["functions"]:
            if f and f not in funcs:
                funcs.append(f)
    samples = []
    for r in main:
        for s in r.get("samples", [])[:2]:
            samples.append({"unit": r["unit"], "obligation": s[0], "description": s[1]})
    named = sum(r.get("named", 0) for r in main if r["status"] == "holds" and r["canaries_fired"] == r["canaries_required"])
    bounded = [{"unit": r["unit"], "bound": r["bound"]} for r in main if r["bound"]]
    cov = {
        "obligations": obl, "discharged": dis,
        "checker_cmd": (main[0].get("checker_cmd") if main else "") or "goto-cc; goto-instrument --dfcc; cbmc",
        "trusted_base": trusted,
        "functions_under_contract": funcs,
        "units": [{k: r[k] for k in ("unit", "enforce", "replaced", "loops", "bound", "backend", "solver_s", "wall_s",
                                      "obligations", "discharged", "canaries_required", "canaries_fired", "status",
                                      "reason", "source_sha256")} for r in main],
        "canaries": {"required": sum(r["canaries_required"] for r in main), "fired": sum(r["canaries_fired"] for r in main)},
        "bounded_units": bounded,
        "unbounded_units": [r["unit"] for r in main if not r["bound"]],
        "samples": samples[:12] or [{"note": "no obligations"}],
        "evaluations": len(main),
        "distinct_nontrivial": named,
        "rule": "evaluations = cbmc runs (one per obligation unit); distinct_nontrivial = discharged named obligations "
                "(function pre/postconditions, assigns/frame checks, loop-invariant base/step, OBL/ENV assertions of the harness and "
                "environment contracts) in units whose reachability canaries all fired; generated pointer/overflow checks are in "
                "'obligations' but not counted here",
        "known_findings_reported": kf_lines,
        "undecided": [{"unit": r["id"], "reason": r.get("reason")} for r in undecided],
        "configured_sources_key": cfg["key"],
    }
    assumptions = list(getattr(mod, "ASSUMPTIONS", []))
    assumptions += ["machine integers are bit-precise (CBMC bit-vector semantics); no mathematical-integer idealisation",
                    "CBMC 6.11 / goto-instrument DFCC and the SAT/SMT back end are trusted",
                    "environment contracts listed in coverage.trusted_base are assumed, not proved",
                    "the verified text is the library's: scratch copies of /repo/src are byte-identical apart from injected loop-contract clauses (identity check), and every unit's harness compiles "
                    "exactly the source lines the library build compiles (conditional-compilation identity, lib/ctxcheck.py, gcc -E -fdirectives-only; checked in this run); gcc's preprocessor stands in for goto-cc's"]
    assumptions += assumes + replaced_unproved
    ev = {"property_id": prop, "tier": tier, "seed": int(os.environ.get("VERIF_SEED", "0") or 0), "level": level,
          "coverage": cov, "assumptions": assumptions, "wall_s": round(wall, 2), "violations": len(violations)}
    with open(os.path.join(EVID, prop + ".json"), "w") as fh:
        json.dump(ev, fh, indent=1)


def replay_file(prop, path):
    with open(path) as fh:
        d = json.load(fh)
    mod = load_units(prop)
    unit = [u for u in mod.UNITS if u["id"] == d["unit"]]
    if not unit:
        print("unit %s no longer exists" % d["unit"])
        return 2
    cfg = config.configure()
    rundir = os.path.join(WORK, "replay-%d" % os.getpid())
    os.makedirs(rundir, exist_ok=True)
    ok, info = native_replay(prop, unit[0], {"inputs": d.get("counterexample_inputs") or {}, "property": d["obligation"]}, cfg, rundir)
    shutil.rmtree(rundir, ignore_errors=True)
    print("obligation: %s -- %s" % (d["obligation"], d["description"]))
    print(json.dumps(info, indent=1) if isinstance(info, dict) else info)
    if ok:
        print("REPRODUCED on the real code")
        print("VIOLATION property=%s replay=%s" % (prop, path))
        return 1
    print("not reproduced natively (obligation failure stands as recorded in the file)")
    return 0
