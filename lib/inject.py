"""Mechanical injection of CBMC loop contracts into a scratch copy of a real
source file.  Key = (function name, ordinal of the loop in textual order inside
that function).  Nothing of the original text is dropped or rewritten: the only
change is the insertion of marker-delimited clause blocks, and strip() must give
the original bytes back (checked by the driver on every run)."""
import re

BEGIN = "/*VERIF-INJ-BEGIN*/"
END = "/*VERIF-INJ-END*/"


class InjectError(Exception):
    pass


def mask(src):
    """same length as src; comments, string/char literals and preprocessor
    lines replaced by blanks (newlines kept)"""
    out = list(src)
    i, n = 0, len(src)
    bol = True

    def blank(a, b):
        for k in range(a, b):
            if out[k] != "\n":
                out[k] = " "
    while i < n:
        c = src[i]
        if bol and c in " \t":
            i += 1
            continue
        if bol and c == "#":
            j = i
            while j < n:
                k = src.find("\n", j)
                if k < 0:
                    k = n
                    break
                # continuation line?
                t = k - 1
                if t >= 0 and src[t] == "\\":
                    j = k + 1
                    continue
                break
            blank(i, k)
            i = k
            continue
        if c == "\n":
            bol = True
            i += 1
            continue
        bol = False
        if src.startswith("/*", i):
            k = src.find("*/", i + 2)
            k = n if k < 0 else k + 2
            blank(i, k)
            if "\n" in src[i:k]:
                pass
            i = k
            continue
        if src.startswith("//", i):
            k = src.find("\n", i)
            k = n if k < 0 else k
            blank(i, k)
            i = k
            continue
        if c == '"' or c == "'":
            j = i + 1
            while j < n and src[j] != c:
                if src[j] == "\\":
                    j += 1
                j += 1
            blank(i + 1, j)
            i = j + 1
            continue
        i += 1
    return "".join(out)


def _match(m, i, open_c, close_c):
    """m[i] == open_c; return index of the matching close_c"""
    depth = 0
    n = len(m)
    while i < n:
        if m[i] == open_c:
            depth += 1
        elif m[i] == close_c:
            depth -= 1
            if depth == 0:
                return i
        i += 1
    raise InjectError("unbalanced %s" % open_c)


def _skip_ws(m, i):
    while i < len(m) and m[i] in " \t\r\n":
        i += 1
    return i


def find_function(m, name):
    """return (body_open, body_close) indices of the braces of the definition"""
    # plibsys style: the function name starts a line and the closing brace of the body is in column 0.
    # (brace counting over the whole file is unreliable: #if branches may open a block several times)
    for mo in re.finditer(r"(?m)^%s\b" % re.escape(name), m):
        j = _skip_ws(m, mo.end())
        if j >= len(m) or m[j] != "(":
            continue
        k = _match(m, j, "(", ")")
        b = _skip_ws(m, k + 1)
        if b < len(m) and m[b] == "{":
            e = m.find("\n}", b)
            if e < 0:
                raise InjectError("function %s: no closing brace in column 0" % name)
            return b, e + 1
    for mo in re.finditer(r"\b%s\b" % re.escape(name), m):
        # brace depth at this position must be 0
        pre = m[:mo.start()]
        if pre.count("{") != pre.count("}"):
            continue
        j = _skip_ws(m, mo.end())
        if j >= len(m) or m[j] != "(":
            continue
        k = _match(m, j, "(", ")")
        b = _skip_ws(m, k + 1)
        if b < len(m) and m[b] == "{":
            return b, _match(m, b, "{", "}")
    raise InjectError("function %s: no definition found" % name)


def find_loops(m, lo, hi):
    """loops inside m[lo:hi] in textual order of their keyword:
    list of (kind, insertion_index) ; insertion index = just after the ')' that
    closes the loop header (for/while); just after the keyword for do-while"""
    loops = []
    do_tails = set()
    for mo in re.finditer(r"\b(for|while|do)\b", m[lo:hi]):
        pos = lo + mo.start()
        kw = mo.group(1)
        if kw == "while" and pos in do_tails:
            continue
        if kw in ("for", "while"):
            j = _skip_ws(m, pos + len(kw))
            if m[j] != "(":
                raise InjectError("loop header without '(' at %d" % pos)
            k = _match(m, j, "(", ")")
            loops.append((kw, k + 1))
        else:
            j = _skip_ws(m, pos + 2)
            if m[j] != "{":
                raise InjectError("do-loop without a braced body at %d (unsupported)" % pos)
            e = _match(m, j, "{", "}")
            w = _skip_ws(m, e + 1)
            if not m.startswith("while", w):
                raise InjectError("do-loop without while tail at %d" % pos)
            do_tails.add(w)
            # CBMC's grammar takes the contract of a do-while right after 'do'
            loops.append(("do", pos + 2))
    return loops


def inject(src, spec):
    """spec: {function: {"nloops": N, "<ordinal>": [clause, ...], ...}}
    returns (new_src, report) ; raises InjectError when a must-fire rule breaks"""
    m = mask(src)
    inserts = []
    report = []
    for fn, fs in spec.items():
        lo, hi = find_function(m, fn)
        loops = find_loops(m, lo, hi)
        want = fs.get("nloops")
        if want and len(loops) == 0:
            # the function has become loop-free: nothing to close, its obligations are checked directly
            report.append({"function": fn, "loop": None, "kind": "vanished", "clauses": 0})
            continue
        if want is not None and want != len(loops):
            raise InjectError("function %s: expected %d loops, found %d" % (fn, want, len(loops)))
        for key, clauses in fs.items():
            if key == "nloops":
                continue
            k = int(key)
            if k >= len(loops):
                raise InjectError("function %s: no loop #%d" % (fn, k))
            text = " " + BEGIN + " " + " ".join(clauses) + " " + END + " "
            inserts.append((loops[k][1], text))
            report.append({"function": fn, "loop": k, "kind": loops[k][0], "clauses": len(clauses)})
    out = src
    for pos, text in sorted(inserts, reverse=True):
        out = out[:pos] + text + out[pos:]
    return out, report


def strip(src):
    return re.sub(r" " + re.escape(BEGIN) + r".*?" + re.escape(END) + r" ", "", src, flags=re.S)


def count_loops(src, fn):
    m = mask(src)
    lo, hi = find_function(m, fn)
    return len(find_loops(m, lo, hi))


if __name__ == "__main__":
    import sys
    s = open(sys.argv[1]).read()
    print(count_loops(s, sys.argv[2]))
