"""writes MANIFEST.json from props/*/units.py metadata (run by hand after adding a property)"""
import json, os, sys, importlib.util
VERIF = os.path.dirname(os.path.dirname(os.path.abspath(__file__)))
sys.path.insert(0, VERIF)
from lib import driver

ALL = ["C%02d" % i for i in range(1, 21)]
checks, na = [], []
for p in ALL:
    path = os.path.join(VERIF, "props", p, "units.py")
    if not os.path.exists(path):
        na.append({"property_id": p, "reason": "check not built yet (work in progress); see DESIGN.md section 6 for the planned contracts"})
        continue
    m = driver.load_units(p)
    checks.append({
        "property_id": p,
        "quick_cmd": "bin/vcheck %s --tier quick" % p,
        "thorough_cmd": "bin/vcheck %s --tier thorough" % p,
        "evidence_file": "/verif/evidence/%s.json" % p,
        "replay_cmd_template": "bin/vcheck %s --replay {path}" % p,
        "engine": "cbmc-dfcc",
        "level_claimed": {"category": m.LEVEL, "text": m.LEVEL_TEXT, "design_ref": "DESIGN.md section 6, " + p},
        "level_note": m.LEVEL_NOTE,
        "technique": m.TECHNIQUE,
    })
man = {
    "version": 1,
    "setup_cmd": "bin/vsetup",
    "hooks": {"guard": "PLIBSYS_VERIF",
              "enable": "passed as -DPLIBSYS_VERIF to goto-cc only; the guard occurs nowhere in /repo/src: function contracts are attached by re-declaration in the harness translation unit that #includes the real source file, loop contracts are injected into a scratch copy on every run (identity-checked)",
              "baseline_off_cmd": "cmake -G Ninja -B /repo/_build -S /repo && cmake --build /repo/_build && ctest --test-dir /repo/_build -j8 --timeout 900",
              "source_commits": [], "add_only": True},
    "engines": [{"name": "cbmc-dfcc", "path": "bin/vcheck", "serves_properties": [c["property_id"] for c in checks],
                 "kind_free_text": "contract-based deductive verification: goto-cc -> goto-instrument --dfcc (enforce/replace contracts, loop contracts) -> cbmc (SAT); native replay of counterexamples with gcc+ASan/UBSan against /repo/src"}],
    "checks": checks,
    "not_applicable": na,
    "notes": "fix: commits in /repo are listed in known_findings.json ('fixed'); exit 2 / UNDECIDED lines mean tool limit or vacuity guard, never a violation.",
}
with open(os.path.join(VERIF, "MANIFEST.json"), "w") as fh:
    json.dump(man, fh, indent=1)
print("checks:", [c["property_id"] for c in checks])
