/* C01 (PMutex part) and C03: pmutex-posix.c / pcondvariable-posix.c are exact,
 * argument-faithful wrappers of the pthread primitives (refinement): the PMutex /
 * PCondVariable has exactly the histories of the pthread object inside it. */
#include "env/verif.h"
#include "env/alloc.c"
#include "env/pthread.c"
#include "pmutex-posix.c"
#include "pcondvariable-posix.c"

#define BOOL_IS(r, c) (((r) == TRUE || (r) == FALSE) && (((r) == TRUE) == (c)))

pboolean p_mutex_lock (PMutex *mutex)
__CPROVER_requires ((mutex == NULL || __CPROVER_is_fresh (mutex, sizeof (PMutex))) && PT_INIT)
__CPROVER_assigns (PT_GHOSTS)
__CPROVER_ensures (mutex == NULL ==> (__CPROVER_return_value == FALSE && g_pt_calls == 0))
__CPROVER_ensures (mutex != NULL ==> (g_pt_calls == 1 && g_mlock == 1 && g_m_hdl == &mutex->hdl && BOOL_IS (__CPROVER_return_value, g_pt_rc == 0)))
;
pboolean p_mutex_trylock (PMutex *mutex)
__CPROVER_requires ((mutex == NULL || __CPROVER_is_fresh (mutex, sizeof (PMutex))) && PT_INIT)
__CPROVER_assigns (PT_GHOSTS)
__CPROVER_ensures (mutex == NULL ==> (__CPROVER_return_value == FALSE && g_pt_calls == 0))
/* never the blocking primitive: exactly one call, and it is pthread_mutex_trylock */
__CPROVER_ensures (mutex != NULL ==> (g_pt_calls == 1 && g_mtrylock == 1 && g_mlock == 0 && g_m_hdl == &mutex->hdl && BOOL_IS (__CPROVER_return_value, g_pt_rc == 0)))
;
pboolean p_mutex_unlock (PMutex *mutex)
__CPROVER_requires ((mutex == NULL || __CPROVER_is_fresh (mutex, sizeof (PMutex))) && PT_INIT)
__CPROVER_assigns (PT_GHOSTS)
__CPROVER_ensures (mutex == NULL ==> (__CPROVER_return_value == FALSE && g_pt_calls == 0))
__CPROVER_ensures (mutex != NULL ==> (g_pt_calls == 1 && g_munlock == 1 && g_m_hdl == &mutex->hdl && BOOL_IS (__CPROVER_return_value, g_pt_rc == 0)))
;

pboolean p_cond_variable_wait (PCondVariable *cond, PMutex *mutex)
__CPROVER_requires ((cond == NULL || __CPROVER_is_fresh (cond, sizeof (PCondVariable))) && (mutex == NULL || __CPROVER_is_fresh (mutex, sizeof (PMutex))) && PT_INIT)
__CPROVER_assigns (PT_GHOSTS)
__CPROVER_ensures ((cond == NULL || mutex == NULL) ==> (__CPROVER_return_value == FALSE && g_pt_calls == 0))
/* one atomic release-and-wait on THIS condition and on THE pthread mutex inside the PMutex the caller holds */
__CPROVER_ensures ((cond != NULL && mutex != NULL) ==> (g_pt_calls == 1 && g_cwait == 1 && g_c_hdl == &cond->hdl &&
	g_cwait_mutex == &mutex->hdl && BOOL_IS (__CPROVER_return_value, g_pt_rc == 0)))
;
pboolean p_cond_variable_signal (PCondVariable *cond)
__CPROVER_requires ((cond == NULL || __CPROVER_is_fresh (cond, sizeof (PCondVariable))) && PT_INIT)
__CPROVER_assigns (PT_GHOSTS)
__CPROVER_ensures (cond == NULL ==> (__CPROVER_return_value == FALSE && g_pt_calls == 0))
__CPROVER_ensures (cond != NULL ==> (g_pt_calls == 1 && g_csignal == 1 && g_c_hdl == &cond->hdl && BOOL_IS (__CPROVER_return_value, g_pt_rc == 0)))
;
pboolean p_cond_variable_broadcast (PCondVariable *cond)
__CPROVER_requires ((cond == NULL || __CPROVER_is_fresh (cond, sizeof (PCondVariable))) && PT_INIT)
__CPROVER_assigns (PT_GHOSTS)
__CPROVER_ensures (cond == NULL ==> (__CPROVER_return_value == FALSE && g_pt_calls == 0))
/* broadcast is pthread_cond_broadcast, never a single signal */
__CPROVER_ensures (cond != NULL ==> (g_pt_calls == 1 && g_cbroadcast == 1 && g_csignal == 0 && g_c_hdl == &cond->hdl && BOOL_IS (__CPROVER_return_value, g_pt_rc == 0)))
;

void h_mutex_lock (void)    { PMutex *m; pboolean r = p_mutex_lock (m); if (r) CANARY ("locked"); else CANARY ("failed"); }
void h_mutex_trylock (void) { PMutex *m; pboolean r = p_mutex_trylock (m); if (r) CANARY ("locked"); else CANARY ("busy"); }
void h_mutex_unlock (void)  { PMutex *m; pboolean r = p_mutex_unlock (m); if (r) CANARY ("unlocked"); else CANARY ("failed"); }
void h_cond_wait (void)      { PCondVariable *c; PMutex *m; pboolean r = p_cond_variable_wait (c, m); if (r) CANARY ("woken"); else CANARY ("failed"); }
void h_cond_signal (void)    { PCondVariable *c; pboolean r = p_cond_variable_signal (c); if (r) CANARY ("ok"); else CANARY ("failed"); }
void h_cond_broadcast (void) { PCondVariable *c; pboolean r = p_cond_variable_broadcast (c); if (r) CANARY ("ok"); else CANARY ("failed"); }

/* new/free pairs: init once, destroy once, storage released (also used by C20) */
void h_mutex_new_free (void)
{
	pthread_env_reset (); g_allocs = g_frees = 0;
	PMutex *m = p_mutex_new ();
	if (m == NULL) { OBL (g_allocs == g_frees && g_mdestroy == 0, "failed new keeps nothing"); CANARY ("new failed"); return; }
	OBL (g_minit == 1 && g_m_hdl == &m->hdl && g_pt_rc == 0, "initialised exactly once, successfully");
	p_mutex_free (m);
	OBL (g_mdestroy == 1 && g_allocs == g_frees, "destroyed once, storage released");
	CANARY ("new/free");
}
void h_cond_new_free (void)
{
	pthread_env_reset (); g_allocs = g_frees = 0;
	PCondVariable *c = p_cond_variable_new ();
	if (c == NULL) { OBL (g_allocs == g_frees && g_cdestroy == 0, "failed new keeps nothing"); CANARY ("new failed"); return; }
	OBL (g_cinit == 1 && g_c_hdl == &c->hdl && g_pt_rc == 0, "initialised exactly once, successfully");
	p_cond_variable_free (c);
	OBL (g_cdestroy == 1 && g_allocs == g_frees, "destroyed once, storage released");
	CANARY ("new/free");
}
/* static lemma behind the cast in p_cond_variable_wait */
void h_lemma_mutex_handle_offset (void)
{
	OBL (__builtin_offsetof (struct PMutex_, hdl) == 0, "the pthread mutex is the first member of PMutex");
	CANARY ("end");
}
