/* C01 (PSpinLock part): lock invariant under environment interference
 * (rely/guarantee), for the c11 and sync models; the sim model is an exact
 * wrapper of PMutex.  -DMODEL_C11 / -DMODEL_SYNC / -DMODEL_SIM. */
/* TRUSTED: __atomic_compare_exchange_n / __sync_bool_compare_and_swap -- CBMC's built-in semantics (one indivisible compare-and-swap); a weak CAS may additionally fail spuriously; __atomic_store_4: one-line model */
/* TRUSTED: rely/guarantee rule: other threads only (a) acquire by CAS 0->1, (b) release what they hold by storing 0; release/acquire ordering gives visibility (C11 memory model, not modelled) */
#include "env/verif.h"
#include "env/alloc.c"
#include "pspinlock.h"

volatile pint *g_spin_word;     /* the lock word of the spinlock under test */
_Bool    owner_me, owner_env;   /* ghost: who holds the lock */
_Bool    g_quiet;               /* environment idle */
unsigned g_cas, g_stores, g_fences;
int      g_cas_so, g_cas_fo, g_store_order; pint g_cas_exp, g_cas_des, g_store_val, g_fence_saw;
_Bool    g_bad;                 /* an atomic on another word / an acquire that is not 0->1 / a release by a non-owner */
unsigned long verif_tmp;

/* lock invariant: word and ghost owners agree, at most one owner.
 * NB: DFCC havocs statics to arbitrary bit patterns, a _Bool may hold 2: never compare _Bool ghosts with ==/!=, normalise with ! */
#define LOCK_INV ((*g_spin_word == 0 && !owner_me && !owner_env) || (*g_spin_word == 1 && (!owner_me != !owner_env)))

static void env_step (void)
{
	/* any number of protocol steps of other threads: while I hold the lock they can do nothing;
	 * otherwise they may leave it free or held by one of them */
	if (!g_quiet && !owner_me && nondet_bool ()) {
		if (nondet_bool ()) { *g_spin_word = 1; owner_env = 1; } else { *g_spin_word = 0; owner_env = 0; }
	}
}
static _Bool cas_pre (const volatile void *p, pint exp, pint des, int weak, int so, int fo)
{
	if (p != (const volatile void *) g_spin_word) g_bad = 1;
	g_cas++; g_cas_exp = exp; g_cas_des = des; g_cas_so = so; g_cas_fo = fo;
	env_step ();
	return weak && nondet_bool ();   /* spurious failure of a weak CAS */
}
static _Bool cas_post (_Bool ok)
{
	if (ok) { if (g_cas_exp != 0 || g_cas_des != 1 || owner_me) g_bad = 1; owner_me = 1; }
	env_step ();
	return ok;
}
static void store_model (volatile void *p, pint v, int order)
{
	if (p != (volatile void *) g_spin_word) g_bad = 1;
	env_step ();
	g_stores++; g_store_val = v; g_store_order = order;
	if (!owner_me || v != 0) g_bad = 1;
	*(volatile pint *) p = v;
	if (v == 0) owner_me = 0;
	env_step ();
}

#if defined (MODEL_C11)
#  define __atomic_compare_exchange_n(p, e, d, w, so, fo) \
	(cas_pre ((const volatile void *) (p), *(e), (d), (w), (so), (fo)) ? (_Bool) 0 : cas_post ((_Bool) __atomic_compare_exchange_n ((p), (e), (d), (w), (so), (fo))))
void __atomic_store_4 (volatile void *p, unsigned int v, int o) { store_model (p, (pint) v, o); }
#  include "pspinlock-c11.c"
#  define ACQ_ORDER_OK (g_cas_so == __ATOMIC_ACQUIRE || g_cas_so == __ATOMIC_ACQ_REL || g_cas_so == __ATOMIC_SEQ_CST)
#  define RELEASE_OK   (g_stores == 1 && g_store_val == 0 && (g_store_order == __ATOMIC_RELEASE || g_store_order == __ATOMIC_SEQ_CST))
#elif defined (MODEL_SYNC)
#  define __sync_bool_compare_and_swap(p, o, n) \
	(cas_pre ((const volatile void *) (p), (o), (n), 0, __ATOMIC_SEQ_CST, __ATOMIC_SEQ_CST), cas_post ((_Bool) __sync_bool_compare_and_swap ((p), (o), (n))))
/* unlock is a plain volatile store followed by a full barrier: the barrier hook observes the
 * word before any other thread runs; the aligned word store itself is assumed indivisible */
#  define __sync_synchronize() (g_fences++, g_fence_saw = *g_spin_word, (g_fence_saw == 0 && owner_me) ? (void) (owner_me = 0) : (void) 0, env_step (), __sync_synchronize ())
#  include "pspinlock-sync.c"
#  define ACQ_ORDER_OK 1
#  define RELEASE_OK   (g_fences == 1 && g_fence_saw == 0)
#endif

#if defined (MODEL_C11) || defined (MODEL_SYNC)
#define SP_GHOSTS owner_me, owner_env, g_cas, g_stores, g_fences, g_cas_so, g_cas_fo, g_store_order, g_cas_exp, g_cas_des, g_store_val, g_fence_saw, g_bad, verif_tmp
#define SP_INIT (g_cas == 0 && g_stores == 0 && g_fences == 0 && !g_bad)
/* the lock object is allocated by the harness and g_spin_word is ASSIGNED there: a ghost pointer that is only
 * assumed equal would dereference to CBMC's 'invalid object' (empty value set) and every constraint on it would be void */
#define SP_WF(s) ((s) != NULL && g_spin_word == &(s)->spin && LOCK_INV)

pboolean p_spinlock_trylock (PSpinLock *spinlock)
__CPROVER_requires (SP_WF (spinlock) && SP_INIT && !owner_me)
__CPROVER_assigns (SP_GHOSTS, spinlock->spin)
/* never blocks: exactly one compare-and-swap, no retry */
__CPROVER_ensures (g_cas == 1 && g_stores == 0 && !g_bad && LOCK_INV)
/* TRUE exactly when this thread became the owner */
__CPROVER_ensures ((__CPROVER_return_value == TRUE || __CPROVER_return_value == FALSE) && ((__CPROVER_return_value == TRUE) == !!owner_me))
__CPROVER_ensures (owner_me ==> (!owner_env && ACQ_ORDER_OK))
/* succeeds on a free, uncontended lock */
__CPROVER_ensures ((g_quiet && __CPROVER_old (spinlock->spin) == 0) ==> __CPROVER_return_value == TRUE)
__CPROVER_ensures ((g_quiet && __CPROVER_old (spinlock->spin) == 1) ==> __CPROVER_return_value == FALSE)
;
pboolean p_spinlock_lock (PSpinLock *spinlock)
__CPROVER_requires (SP_WF (spinlock) && SP_INIT && !owner_me)
__CPROVER_assigns (SP_GHOSTS, spinlock->spin)
/* returns only as the owner (partial correctness: a spin loop need not terminate under contention) */
__CPROVER_ensures (__CPROVER_return_value == TRUE)
__CPROVER_ensures (owner_me && !owner_env && !g_bad)
__CPROVER_ensures (LOCK_INV)
__CPROVER_ensures (ACQ_ORDER_OK && g_stores == 0)
;
pboolean p_spinlock_unlock (PSpinLock *spinlock)
__CPROVER_requires (SP_WF (spinlock) && SP_INIT && owner_me)
__CPROVER_assigns (SP_GHOSTS, spinlock->spin)
__CPROVER_ensures (__CPROVER_return_value == TRUE)
__CPROVER_ensures (!owner_me && !g_bad)
__CPROVER_ensures (LOCK_INV)
__CPROVER_ensures (g_cas == 0)
__CPROVER_ensures (RELEASE_OK)
;
static PSpinLock *mk_lock (void)
{
	PSpinLock *s = malloc (sizeof (PSpinLock));
	__CPROVER_assume (s != NULL);
	g_spin_word = &s->spin;
	return s;
}
void h_trylock (void) { PSpinLock *s = mk_lock (); pboolean r = p_spinlock_trylock (s); if (r) CANARY ("acquired"); else CANARY ("busy"); if (r && g_quiet) CANARY ("uncontended"); }
void h_lock (void)    { PSpinLock *s = mk_lock (); pboolean r = p_spinlock_lock (s); CANARY ("acquired"); }
void h_unlock (void)  { PSpinLock *s = mk_lock (); pboolean r = p_spinlock_unlock (s); CANARY ("released"); }
void h_null (void)
{
	OBL (p_spinlock_lock (NULL) == FALSE && p_spinlock_trylock (NULL) == FALSE && p_spinlock_unlock (NULL) == FALSE, "NULL => FALSE");
	CANARY ("end");
}
/* while I own the lock, no environment step can make another owner (mutual exclusion as an invariant) */
void h_lemma_exclusion (void)
{
	volatile pint w; g_spin_word = &w; w = nondet_int (); owner_me = nondet_bool (); owner_env = nondet_bool (); g_quiet = 0;
	__CPROVER_assume (LOCK_INV && owner_me);
	env_step (); env_step ();
	OBL (LOCK_INV && owner_me && !owner_env, "environment cannot acquire while I hold the lock");
	CANARY ("end");
}
#endif

#if defined (MODEL_SIM)
#include "pmutex.h"
unsigned g_m_calls, g_m_lock, g_m_trylock, g_m_unlock; PMutex *g_m_arg; pboolean g_m_rc;
pboolean p_mutex_lock (PMutex *m)    { g_m_calls++; g_m_lock++; g_m_arg = m; return g_m_rc = nondet_int (); }
pboolean p_mutex_trylock (PMutex *m) { g_m_calls++; g_m_trylock++; g_m_arg = m; return g_m_rc = nondet_int (); }
pboolean p_mutex_unlock (PMutex *m)  { g_m_calls++; g_m_unlock++; g_m_arg = m; return g_m_rc = nondet_int (); }
PMutex *p_mutex_new (void) { return nondet_bool () ? NULL : (PMutex *) malloc (1); }
void p_mutex_free (PMutex *m) { free (m); }
#  include "pspinlock-sim.c"
#define SM_GHOSTS g_m_calls, g_m_lock, g_m_trylock, g_m_unlock, g_m_arg, g_m_rc
#define SM_INIT (g_m_calls == 0 && g_m_lock == 0 && g_m_trylock == 0 && g_m_unlock == 0)
/* exact wrappers of the PMutex inside: the spinlock inherits the PMutex result of mutex.c */
pboolean p_spinlock_lock (PSpinLock *spinlock)
__CPROVER_requires (__CPROVER_is_fresh (spinlock, sizeof (PSpinLock)) && SM_INIT) __CPROVER_assigns (SM_GHOSTS)
__CPROVER_ensures (g_m_calls == 1 && g_m_lock == 1 && g_m_arg == spinlock->mutex && __CPROVER_return_value == g_m_rc)
;
pboolean p_spinlock_trylock (PSpinLock *spinlock)
__CPROVER_requires (__CPROVER_is_fresh (spinlock, sizeof (PSpinLock)) && SM_INIT) __CPROVER_assigns (SM_GHOSTS)
__CPROVER_ensures (g_m_calls == 1 && g_m_trylock == 1 && g_m_lock == 0 && g_m_arg == spinlock->mutex && __CPROVER_return_value == g_m_rc)
;
pboolean p_spinlock_unlock (PSpinLock *spinlock)
__CPROVER_requires (__CPROVER_is_fresh (spinlock, sizeof (PSpinLock)) && SM_INIT) __CPROVER_assigns (SM_GHOSTS)
__CPROVER_ensures (g_m_calls == 1 && g_m_unlock == 1 && g_m_arg == spinlock->mutex && __CPROVER_return_value == g_m_rc)
;
void h_trylock (void) { PSpinLock *s; p_spinlock_trylock (s); CANARY ("end"); }
void h_lock (void)    { PSpinLock *s; p_spinlock_lock (s); CANARY ("end"); }
void h_unlock (void)  { PSpinLock *s; p_spinlock_unlock (s); CANARY ("end"); }
void h_null (void)
{
	g_m_calls = 0;
	OBL (p_spinlock_lock (NULL) == FALSE && p_spinlock_trylock (NULL) == FALSE && p_spinlock_unlock (NULL) == FALSE && g_m_calls == 0, "NULL => FALSE");
	CANARY ("end");
}
#endif
