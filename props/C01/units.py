LEVEL = "proof"
UNITS = []
def M(id, entry, enforce=None, **kw):
    d = dict(id=id, harness="mutex.c", entry=entry, sources=["pmutex-posix.c", "pcondvariable-posix.c"], enforce=enforce, replace=[], timeout=300)
    d.update(kw); return d
UNITS += [M("mutex_lock", "h_mutex_lock", "p_mutex_lock", canaries=2), M("mutex_trylock", "h_mutex_trylock", "p_mutex_trylock", canaries=2),
          M("mutex_unlock", "h_mutex_unlock", "p_mutex_unlock", canaries=2),
          M("mutex_new_free", "h_mutex_new_free", None, canaries=2, functions=["p_mutex_new", "p_mutex_free"])]
INV = "!owner_me && ((*g_spin_word == 0 && !owner_me && !owner_env) || (*g_spin_word == 1 && (!owner_me != !owner_env))) && !g_bad && g_stores == 0 && g_fences == 0"
LOOPS = {
 "c11": {"pspinlock-c11.c": {"p_spinlock_lock": {"nloops": 1, "0": [
     "__CPROVER_assigns(tmp_int, owner_me, owner_env, g_cas, g_cas_so, g_cas_fo, g_cas_exp, g_cas_des, g_bad, verif_tmp, spinlock->spin)",
     "__CPROVER_loop_invariant(%s)" % INV]}}},
 "sync": {"pspinlock-sync.c": {"p_spinlock_lock": {"nloops": 1, "0": [
     "__CPROVER_assigns(owner_me, owner_env, g_cas, g_cas_so, g_cas_fo, g_cas_exp, g_cas_des, g_bad, verif_tmp, spinlock->spin)",
     "__CPROVER_loop_invariant(%s)" % INV]}}},
}
for m, src, d in (("c11", "pspinlock-c11.c", "MODEL_C11"), ("sync", "pspinlock-sync.c", "MODEL_SYNC"), ("sim", "pspinlock-sim.c", "MODEL_SIM")):
    for op, can in (("trylock", 3 if m != "sim" else 1), ("lock", 1), ("unlock", 1)):
        u = dict(id="spin_%s_%s" % (m, op), harness="spin.c", entry="h_" + op, sources=[src], enforce="p_spinlock_" + op, replace=[], defines=[d],
                 canaries=can, timeout=300)
        if op == "lock" and m in LOOPS:
            u["loops"] = LOOPS[m]
        UNITS.append(u)
    UNITS.append(dict(id="spin_%s_null" % m, harness="spin.c", entry="h_null", sources=[src], enforce=None, replace=[], defines=[d], functions=[]))
    if m != "sim":
        UNITS.append(dict(id="spin_%s_lemma_exclusion" % m, harness="spin.c", entry="h_lemma_exclusion", sources=[src], enforce=None, replace=[], defines=[d], functions=[]))
# initial state: a new c11 spinlock is free (unit shared with C18, where its allocation-failure exit matters)
UNITS.append(dict(id="spin_c11_new", harness="../C18/misc2.c", entry="h_spin_new", sources=["pspinlock-c11.c"], enforce=None, replace=[], defines=["UNIT_SPIN_NEW"], canaries=2, timeout=300,
                  functions=["p_spinlock_new", "p_spinlock_free"]))
REQUIRE_CONFIGURED = ["pmutex-posix.c", "pspinlock-c11.c"]
TECHNIQUE = "CBMC function contracts (DFCC): PMutex = exact wrapper of pthread_mutex (call-log refinement); spinlocks: lock invariant under a rely/guarantee environment step around every CAS/store, loop contract on the spin loop"
LEVEL_TEXT = ("PMutex lock/trylock/unlock: exactly one pthread call of the right kind on the handle inside the object, result TRUE iff it returned 0, trylock never "
              "calls the blocking primitive. Spinlocks (c11, sync): for every state satisfying the lock invariant (word/ghost-owner agreement, at most one owner) and "
              "under arbitrary protocol steps of other threads before and after each atomic: trylock = exactly one CAS 0->1, TRUE iff ownership gained, TRUE on a free "
              "uncontended lock; lock returns only as the owner (loop contract, unbounded retries); unlock = one store of 0 by the owner with release ordering / followed by a full barrier; "
              "invariant preserved by everything, environment cannot acquire while the lock is held. sim model: exact wrapper of PMutex. Loop-free or loop-contracted: no bound.")
LEVEL_NOTE = ("Trusted: POSIX mutex semantics (mutual exclusion and visibility of pthread_mutex_t), CBMC's CAS builtins, the rely/guarantee rule, the C11 release/acquire axiom "
              "for visibility, indivisibility of an aligned volatile word store (sync unlock). Fairness/starvation and termination of the spin loop are not decided. "
              "pspinlock-sync.c / -sim.c verified although CMake selects the c11 model here.")
