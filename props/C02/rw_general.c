/* C02 (portable 'general' model, prwlock-general.c): monitor-rule proof.
 * The two state words are protected by lock->mutex.  p_mutex_lock / p_cond_variable_wait (re-acquisition) hand the
 * words over in ANY state satisfying the monitor invariant (other threads ran); p_mutex_unlock / the release half of
 * wait check the invariant and snapshot the words.  Per operation the contract relates the words at the last
 * acquisition (A_*) to the words at the final release (U_*).  Spurious wake-ups: wait may return at any time. */
/* TRUSTED: monitor rule (soundness of reasoning per critical section under an invariant); p_mutex_lock/unlock, p_cond_variable_wait/signal/broadcast as verified wrappers of pthreads (C01, C03); capacity: fewer than 32767 simultaneous readers (15-bit field) */
#include "env/verif.h"
#include "env/alloc.c"
#include "pmutex.h"
#include "pcondvariable.h"

struct PRWLock_;
static struct PRWLock_ *g_lock;       /* the lock under test (assigned by the harness) */
_Bool    g_held;                      /* this thread is inside the monitor */
unsigned g_locks, g_unlocks, g_waits, g_waits_read, g_waits_write, g_sig_write, g_sig_read, g_bc_read, g_bc_write;
_Bool    g_wait_may_fail, g_inv_broken;
puint32  A_active, A_waiting;         /* words when the monitor was last (re-)acquired */
puint32  U_active, U_waiting;         /* words at the final release */
puint32  L0_active;                   /* words at the first acquisition */
_Bool    g_waiting_as_reader, g_waiting_as_writer;   /* registered in the waiting counts while blocked */

#define RD(w) ((w) & 0x00007FFFu)
#define WR(w) (((w) & 0x3FFF8000u) >> 15)
/* monitor invariant: at most one writer, writer excludes readers, no stray bits */
#define INV(a, w) (WR (a) <= 1 && (WR (a) == 0 || RD (a) == 0) && ((a) & 0xC0000000u) == 0 && ((w) & 0xC0000000u) == 0)
static void words_get (puint32 *a, puint32 *w);
static void words_set (puint32 a, puint32 w);

static void hand_over (void)
{
	/* other threads ran: any state satisfying the invariant, in which my own registration as a waiter is still counted */
	puint32 a = nondet_uint (), w = nondet_uint ();
	__CPROVER_assume (INV (a, w));
	__CPROVER_assume (RD (a) <= 0x7FFE && RD (w) <= 0x7FFE && WR (w) <= 0x3FFE);   /* capacity assumption of the 15/15-bit fields */
	__CPROVER_assume (!g_waiting_as_reader || RD (w) >= 1);
	__CPROVER_assume (!g_waiting_as_writer || WR (w) >= 1);
	words_set (a, w);
	A_active = a; A_waiting = w;
}
static void release_check (void)
{
	puint32 a, w; words_get (&a, &w);
	if (!INV (a, w)) g_inv_broken = 1;
	ENV_REQ (INV (a, w), "monitor invariant at release: at most one writer, and never readers together with a writer");
	U_active = a; U_waiting = w;
}
pboolean p_mutex_lock (PMutex *m)
{
	ENV_REQ (!g_held, "mutex not locked twice");
	g_locks++; g_held = 1; hand_over ();
	if (g_locks == 1) L0_active = A_active;
	return TRUE;
}
pboolean p_mutex_unlock (PMutex *m)
{
	ENV_REQ (g_held, "unlock inside the monitor");
	release_check (); g_unlocks++; g_held = 0;
	return TRUE;
}
PCondVariable *g_read_cv, *g_write_cv;
pboolean p_cond_variable_wait (PCondVariable *c, PMutex *m)
{
	ENV_REQ (g_held, "wait inside the monitor");
	ENV_REQ (c == g_read_cv || c == g_write_cv, "wait on one of the lock's condition variables");
	puint32 a, w; words_get (&a, &w);
	/* a thread that blocks must be counted as waiting, otherwise nobody will wake it */
	if (c == g_read_cv) { ENV_REQ (RD (w) >= 1 && WR (a) == 1, "a reader blocks only while a writer is active, and is registered as waiting reader"); g_waits_read++; g_waiting_as_reader = 1; }
	else { ENV_REQ (WR (w) >= 1 && a != 0, "a writer blocks only while the lock is held, and is registered as waiting writer"); g_waits_write++; g_waiting_as_writer = 1; }
	release_check ();
	__CPROVER_assume (g_waits < (1u << 30)); g_waits++;   /* ghost counter is mathematical */
	hand_over ();   /* may be a spurious wake-up: the predicate must be re-checked by the caller */
	g_waiting_as_reader = g_waiting_as_writer = 0;
	if (g_wait_may_fail && nondet_bool ()) return FALSE;
	return TRUE;
}
pboolean p_cond_variable_signal (PCondVariable *c) { ENV_REQ (g_held, "signal inside the monitor"); if (c == g_write_cv) g_sig_write++; else g_sig_read++; return TRUE; }
pboolean p_cond_variable_broadcast (PCondVariable *c) { ENV_REQ (g_held, "broadcast inside the monitor"); if (c == g_read_cv) g_bc_read++; else g_bc_write++; return TRUE; }
PMutex *p_mutex_new (void) { return nondet_bool () ? NULL : malloc (1); }
void p_mutex_free (PMutex *m) { free (m); }
PCondVariable *p_cond_variable_new (void) { return nondet_bool () ? NULL : malloc (1); }
void p_cond_variable_free (PCondVariable *c) { free (c); }

#include "prwlock-general.c"
static void words_get (puint32 *a, puint32 *w) { *a = ((PRWLock *) g_lock)->active_threads; *w = ((PRWLock *) g_lock)->waiting_threads; }
static void words_set (puint32 a, puint32 w) { ((PRWLock *) g_lock)->active_threads = a; ((PRWLock *) g_lock)->waiting_threads = w; }

static PRWLock *mk_lock (void)
{
	PRWLock *l = malloc (sizeof (PRWLock)); __CPROVER_assume (l != NULL);
	l->mutex = malloc (1); l->read_cv = malloc (1); l->write_cv = malloc (1);
	__CPROVER_assume (l->mutex && l->read_cv && l->write_cv);
	g_lock = l; g_read_cv = l->read_cv; g_write_cv = l->write_cv;
	g_held = 0; g_locks = g_unlocks = g_waits = g_waits_read = g_waits_write = g_sig_write = g_sig_read = g_bc_read = g_bc_write = 0;
	g_inv_broken = 0; g_waiting_as_reader = g_waiting_as_writer = 0; g_wait_may_fail = 0;
	return l;
}
#define BRACKET_OK (g_locks == 1 && g_unlocks == 1 && !g_held)

void h_reader_lock (void)
{
	PRWLock *l = mk_lock ();
	pboolean r = p_rwlock_reader_lock (l);
	OBL (r == TRUE && BRACKET_OK, "reader_lock returns TRUE, one critical section");
	OBL (WR (A_active) == 0 && U_active == ((A_active & ~0x7FFFu) | (RD (A_active) + 1)), "reader enters only when no writer is active: reader count +1 in that very state");
	OBL (g_waits == 0 ? U_waiting == A_waiting : (RD (U_waiting) == RD (A_waiting) - 1 && WR (U_waiting) == WR (A_waiting)), "waiting-reader registration is removed exactly once");
	OBL (WR (L0_active) != 0 || g_waits == 0, "readers share: with no active writer a reader never waits (also while other readers hold the lock)");
	OBL (g_waits_write == 0 && g_sig_write == 0 && g_bc_read == 0, "reader_lock waits only on the readers' condition and wakes nobody");
	if (g_waits > 0) CANARY ("entered after waiting"); else CANARY ("entered at once");
	if (g_waits == 0 && RD (A_active) > 0) CANARY ("entered next to other readers");
}
void h_writer_lock (void)
{
	PRWLock *l = mk_lock ();
	pboolean r = p_rwlock_writer_lock (l);
	OBL (r == TRUE && BRACKET_OK, "writer_lock returns TRUE, one critical section");
	OBL (A_active == 0 && WR (U_active) == 1 && RD (U_active) == 0, "writer enters only when nobody holds the lock, and becomes the one writer");
	OBL (g_waits == 0 ? U_waiting == A_waiting : (WR (U_waiting) == WR (A_waiting) - 1 && RD (U_waiting) == RD (A_waiting)), "waiting-writer registration is removed exactly once");
	OBL (g_waits_read == 0 && g_sig_write == 0 && g_bc_read == 0, "writer_lock waits only on the writers' condition and wakes nobody");
	if (g_waits > 0) CANARY ("entered after waiting"); else CANARY ("entered at once");
}
void h_reader_trylock (void)
{
	PRWLock *l = mk_lock ();
	pboolean r = p_rwlock_reader_trylock (l);
	OBL (g_waits == 0 && BRACKET_OK, "trylock never blocks");
	OBL ((r == TRUE) == (WR (A_active) == 0) && (r == TRUE || r == FALSE), "reader trylock succeeds exactly when no writer is active");
	OBL (r == TRUE ? U_active == ((A_active & ~0x7FFFu) | (RD (A_active) + 1)) : U_active == A_active, "granted: reader count +1; refused: state unchanged");
	OBL (U_waiting == A_waiting, "trylock never registers as waiting");
	if (r) CANARY ("granted"); else CANARY ("refused");
}
void h_writer_trylock (void)
{
	PRWLock *l = mk_lock ();
	pboolean r = p_rwlock_writer_trylock (l);
	OBL (g_waits == 0 && BRACKET_OK, "trylock never blocks");
	OBL ((r == TRUE) == (A_active == 0) && (r == TRUE || r == FALSE), "writer trylock succeeds exactly when nobody holds the lock");
	OBL (r == TRUE ? (WR (U_active) == 1 && RD (U_active) == 0) : U_active == A_active, "granted: the one writer; refused: state unchanged");
	OBL (U_waiting == A_waiting, "trylock never registers as waiting");
	if (r) CANARY ("granted"); else CANARY ("refused");
}
void h_reader_unlock (void)
{
	PRWLock *l = mk_lock ();
	pboolean r = p_rwlock_reader_unlock (l);
	OBL (g_waits == 0 && BRACKET_OK, "unlock never blocks");
	if (RD (A_active) >= 1) {
		OBL (U_active == ((A_active & ~0x7FFFu) | (RD (A_active) - 1)) && U_waiting == A_waiting, "exactly one reader hold is given back");
		/* no lost wake-up: the last reader out wakes a waiting writer */
		OBL (!(RD (A_active) == 1 && WR (A_waiting) >= 1) || g_sig_write >= 1, "last reader out signals a waiting writer");
		OBL (g_bc_read == 0 && g_sig_read == 0, "readers are not woken by a reader leaving");
		CANARY ("reader left");
	} else { OBL (U_active == A_active && U_waiting == A_waiting, "no reader hold: nothing changes"); CANARY ("nothing to unlock"); }
}
void h_writer_unlock (void)
{
	PRWLock *l = mk_lock ();
	pboolean r = p_rwlock_writer_unlock (l);
	OBL (g_waits == 0 && BRACKET_OK, "unlock never blocks");
	OBL (WR (U_active) == 0 && RD (U_active) == RD (A_active) && U_waiting == A_waiting, "the writer hold is given back, nothing else changes");
	/* no lost wake-up: a waiting writer is signalled; otherwise ALL waiting readers are woken (broadcast, not signal) */
	OBL (WR (A_waiting) == 0 || g_sig_write >= 1, "writer out signals a waiting writer");
	OBL (!(WR (A_waiting) == 0 && RD (A_waiting) >= 1) || g_bc_read >= 1, "writer out wakes all waiting readers when no writer waits");
	if (WR (A_waiting)) CANARY ("writer woken"); else if (RD (A_waiting)) CANARY ("readers woken"); else CANARY ("nobody waits");
}
void h_null (void)
{
	g_locks = 0;
	OBL (p_rwlock_reader_lock (NULL) == FALSE && p_rwlock_writer_lock (NULL) == FALSE && p_rwlock_reader_trylock (NULL) == FALSE && p_rwlock_writer_trylock (NULL) == FALSE &&
	     p_rwlock_reader_unlock (NULL) == FALSE && p_rwlock_writer_unlock (NULL) == FALSE && g_locks == 0, "NULL lock: FALSE, nothing touched");
	CANARY ("end");
}

/* ---- a failing condition wait (pthread_cond_wait reporting an error): the blocked call gives up with FALSE, takes no
 * hold, and -- like every other exit -- removes its waiting registration inside the same critical section; a stale
 * registration would make later releases signal the wrong condition (lost wake-up) */
void h_writer_lock_waitfail (void)
{
	PRWLock *l = mk_lock (); g_wait_may_fail = 1;
	pboolean r = p_rwlock_writer_lock (l);
	OBL ((r == TRUE || r == FALSE) && BRACKET_OK, "one critical section, mutex released, whatever the wait reports");
	OBL (g_waits == 0 ? U_waiting == A_waiting : (WR (U_waiting) == WR (A_waiting) - 1 && RD (U_waiting) == RD (A_waiting)), "waiting-writer registration is removed exactly once, also when the wait failed");
	if (r == TRUE) OBL (A_active == 0 && WR (U_active) == 1 && RD (U_active) == 0, "TRUE: entered as the one writer when nobody held the lock");
	else { OBL (g_waits >= 1 && U_active == A_active, "FALSE only after a failed wait, and then no hold is taken"); CANARY ("wait failed"); }
	if (r == TRUE && g_waits > 0) CANARY ("entered after waiting");
}
void h_reader_lock_waitfail (void)
{
	PRWLock *l = mk_lock (); g_wait_may_fail = 1;
	pboolean r = p_rwlock_reader_lock (l);
	OBL ((r == TRUE || r == FALSE) && BRACKET_OK, "one critical section, mutex released, whatever the wait reports");
	OBL (g_waits == 0 ? U_waiting == A_waiting : (RD (U_waiting) == RD (A_waiting) - 1 && WR (U_waiting) == WR (A_waiting)), "waiting-reader registration is removed exactly once, also when the wait failed");
	if (r == TRUE) OBL (WR (A_active) == 0 && U_active == ((A_active & ~0x7FFFu) | (RD (A_active) + 1)), "TRUE: reader count +1 in a state without active writer");
	else { OBL (g_waits >= 1 && U_active == A_active, "FALSE only after a failed wait, and then no hold is taken"); CANARY ("wait failed"); }
	if (r == TRUE && g_waits > 0) CANARY ("entered after waiting");
}
