/* C02 (native model): prwlock-posix.c is an exact wrapper of pthread_rwlock_*: the PRWLock has exactly the histories of
 * the pthread rwlock inside it (exclusive writers / shared readers / no lost wake-up are then POSIX's). */
#include "env/verif.h"
#include "env/alloc.c"
#include "env/pthread.c"
#include "prwlock-posix.c"
#define BOOL_IS(r, c) (((r) == TRUE || (r) == FALSE) && (((r) == TRUE) == (c)))
#define WRAP(fn, counter, others_zero) \
pboolean fn (PRWLock *lock) \
__CPROVER_requires ((lock == NULL || __CPROVER_is_fresh (lock, sizeof (PRWLock))) && RW_INIT) \
__CPROVER_assigns (RW_GHOSTS) \
__CPROVER_ensures (lock == NULL ==> (__CPROVER_return_value == FALSE && g_rw_calls == 0)) \
__CPROVER_ensures (lock != NULL ==> (g_rw_calls == 1 && counter == 1 && (others_zero) && g_rw_hdl == &lock->hdl && BOOL_IS (__CPROVER_return_value, g_rw_rc == 0))) \
;
WRAP (p_rwlock_reader_lock, g_rdlock, 1)
WRAP (p_rwlock_writer_lock, g_wrlock, 1)
/* try variants never call a blocking primitive and report TRUE exactly when the native try succeeded */
WRAP (p_rwlock_reader_trylock, g_tryrd, g_rdlock == 0 && g_wrlock == 0)
WRAP (p_rwlock_writer_trylock, g_trywr, g_rdlock == 0 && g_wrlock == 0)
WRAP (p_rwlock_reader_unlock, g_rwunlock, 1)
WRAP (p_rwlock_writer_unlock, g_rwunlock, 1)
#define HW(n) void h_##n (void) { PRWLock *l; pboolean r = p_rwlock_##n (l); if (r) CANARY (#n " ok"); else CANARY (#n " failed"); }
HW (reader_lock) HW (writer_lock) HW (reader_trylock) HW (writer_trylock) HW (reader_unlock) HW (writer_unlock)
void h_new_free (void)
{
	pthread_env_reset (); g_rw_calls = g_rwinit = g_rwdestroy = 0; g_allocs = g_frees = 0;
	PRWLock *l = p_rwlock_new ();
	if (l == NULL) { OBL (g_allocs == g_frees && g_rwdestroy == 0, "failed new keeps nothing"); CANARY ("new failed"); return; }
	OBL (g_rwinit == 1 && g_rw_hdl == &l->hdl && g_rw_rc == 0, "initialised exactly once, successfully");
	p_rwlock_free (l);
	OBL (g_rwdestroy == 1 && g_allocs == g_frees, "destroyed once, storage released");
	CANARY ("new/free");
}
