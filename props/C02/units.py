LEVEL = "proof"
UNITS = []
for n, can in (("reader_lock", 2), ("writer_lock", 2), ("reader_trylock", 2), ("writer_trylock", 2), ("reader_unlock", 2), ("writer_unlock", 2)):
    UNITS.append(dict(id="posix_" + n, harness="rw_posix.c", entry="h_" + n, sources=["prwlock-posix.c"], enforce="p_rwlock_" + n, replace=[], canaries=can, timeout=300))
UNITS.append(dict(id="posix_new_free", harness="rw_posix.c", entry="h_new_free", sources=["prwlock-posix.c"], enforce=None, replace=[], canaries=2, timeout=300, functions=["p_rwlock_new", "p_rwlock_free"]))
G = "prwlock-general.c"
COMMON = ("g_held && g_locks == 1 && g_unlocks == 0 && wait_ok == TRUE && !g_waiting_as_reader && !g_waiting_as_writer && lock->active_threads == A_active && "
          "WR (lock->active_threads) <= 1 && (WR (lock->active_threads) == 0 || RD (lock->active_threads) == 0) && (lock->active_threads & 0xC0000000u) == 0 && (lock->waiting_threads & 0xC0000000u) == 0 && "
          "RD (lock->active_threads) <= 0x7FFE && g_sig_write == 0 && g_sig_read == 0 && g_bc_read == 0 && g_bc_write == 0 && ")
ASG = "__CPROVER_assigns(wait_ok, lock->active_threads, lock->waiting_threads, A_active, A_waiting, U_active, U_waiting, g_waits, g_waits_read, g_waits_write, g_waiting_as_reader, g_waiting_as_writer, g_inv_broken)"
LOOPS = {G: {
  "p_rwlock_reader_lock": {"nloops": 1, "0": [ASG, "__CPROVER_loop_invariant(" + COMMON +
      "WR (L0_active) != 0 && g_waits_write == 0 && RD (lock->waiting_threads) >= 1 && "
      "((g_waits >= 1 && lock->waiting_threads == A_waiting) || (g_waits == 0 && WR (lock->active_threads) != 0 && RD (A_waiting) <= 0x7FFE && lock->waiting_threads == ((A_waiting & ~0x7FFFu) | (RD (A_waiting) + 1)))))"]},
  "p_rwlock_writer_lock": {"nloops": 1, "0": [ASG, "__CPROVER_loop_invariant(" + COMMON +
      "g_waits_read == 0 && WR (lock->waiting_threads) >= 1 && "
      "((g_waits >= 1 && lock->waiting_threads == A_waiting) || (g_waits == 0 && lock->active_threads != 0 && WR (A_waiting) <= 0x3FFE && lock->waiting_threads == ((A_waiting & ~0x3FFF8000u) | ((WR (A_waiting) + 1) << 15)))))"]},
}}
def GU(id, entry, fn, can, loops=None):
    d = dict(id="general_" + id, harness="rw_general.c", entry=entry, sources=[G], enforce=None, replace=[], canaries=can, timeout=600, functions=[fn])
    if loops: d["loops"] = {G: {loops: LOOPS[G][loops]}}
    return d
UNITS += [GU("reader_lock", "h_reader_lock", "p_rwlock_reader_lock", 3, "p_rwlock_reader_lock"), GU("writer_lock", "h_writer_lock", "p_rwlock_writer_lock", 2, "p_rwlock_writer_lock"),
          GU("reader_trylock", "h_reader_trylock", "p_rwlock_reader_trylock", 2), GU("writer_trylock", "h_writer_trylock", "p_rwlock_writer_trylock", 2),
          GU("reader_unlock", "h_reader_unlock", "p_rwlock_reader_unlock", 2), GU("writer_unlock", "h_writer_unlock", "p_rwlock_writer_unlock", 3),
          GU("writer_lock_waitfail", "h_writer_lock_waitfail", "p_rwlock_writer_lock", 2, "p_rwlock_writer_lock"), GU("reader_lock_waitfail", "h_reader_lock_waitfail", "p_rwlock_reader_lock", 2, "p_rwlock_reader_lock"),
          GU("null", "h_null", "p_rwlock_reader_lock", 1)]
# the initial state the monitor invariant starts from: a new general-model lock has both counter words zero (unit shared with C18, where its allocation-failure exits matter)
UNITS.append(dict(id="general_new", harness="../C18/misc.c", entry="h_rwlock_new", sources=["prwlock-general.c"], enforce=None, replace=[], defines=["UNIT_RWLOCK_NEW"], canaries=2, timeout=300,
                  functions=["p_rwlock_new", "p_rwlock_free"], cbmc_flags=["--unwind", "8", "--unwinding-assertions", "--object-bits", "10"]))
REQUIRE_CONFIGURED = ["prwlock-posix.c"]
TECHNIQUE = "CBMC contracts: prwlock-posix.c as an exact wrapper of pthread_rwlock (call-log refinement); prwlock-general.c by the monitor rule (invariant handed over at lock/wait, checked at unlock/wait) with loop contracts on the predicate re-check loops"
LEVEL_TEXT = ("Native model: every operation is exactly one pthread_rwlock call of the right kind on the handle inside the object, TRUE iff it returned 0, try variants never call a blocking "
              "primitive. General model, for every state of the two counter words satisfying the monitor invariant (at most one writer, never readers with a writer) and arbitrary interference at "
              "every hand-over including spurious wake-ups: a reader enters only in a state with no active writer and never waits when no writer is active (readers share); a writer enters only "
              "when nobody holds the lock; trylocks never wait and succeed exactly when grantable; every release re-establishes the invariant; a blocked thread is registered as waiting; the "
              "last reader out signals a waiting writer, a writer out signals a waiting writer or else broadcasts to all waiting readers (the safety half of 'no lost wake-up').")
LEVEL_NOTE = ("NOT decided: that a finite set of lock/unlock rounds always runs to completion (liveness over schedules); the wake-up obligations above are its safety half, the step to termination is a "
              "paper argument. Trusted: monitor rule, pthread semantics (C01/C03 wrappers), capacity assumption of fewer than 32767 simultaneous readers (15-bit field; beyond it the reader count "
              "overflows into the writer field), cond wait failure paths are covered by the two *_waitfail units only (FALSE, no hold, registration removed). prwlock-general.c is verified although CMake selects the native model here.")
