LEVEL = "proof"
def M(id, entry, enforce=None, **kw):
    d = dict(id=id, harness="../C01/mutex.c", entry=entry, sources=["pmutex-posix.c", "pcondvariable-posix.c"], enforce=enforce, replace=[], timeout=300)
    d.update(kw); return d
UNITS = [M("cond_wait", "h_cond_wait", "p_cond_variable_wait", canaries=2), M("cond_signal", "h_cond_signal", "p_cond_variable_signal", canaries=2),
         M("cond_broadcast", "h_cond_broadcast", "p_cond_variable_broadcast", canaries=2),
         M("cond_new_free", "h_cond_new_free", None, canaries=2, functions=["p_cond_variable_new", "p_cond_variable_free"]),
         # the property relies on PMutex being an exact wrapper of the pthread mutex the condition variable releases and re-acquires
         M("mutex_lock", "h_mutex_lock", "p_mutex_lock", canaries=2), M("mutex_trylock", "h_mutex_trylock", "p_mutex_trylock", canaries=2),
         M("mutex_unlock", "h_mutex_unlock", "p_mutex_unlock", canaries=2),
         M("mutex_new_free", "h_mutex_new_free", None, canaries=2, functions=["p_mutex_new", "p_mutex_free"]),   # ... and a plain (default-attribute, non-recursive) one
         M("lemma_mutex_handle_offset", "h_lemma_mutex_handle_offset", None, functions=[])]
REQUIRE_CONFIGURED = ["pcondvariable-posix.c", "pmutex-posix.c"]
TECHNIQUE = "CBMC function contracts (DFCC): p_cond_variable_* are exact, argument-faithful wrappers of pthread_cond_* (call-log refinement)"
LEVEL_TEXT = ("wait(c, m) performs exactly one pthread_cond_wait on the condition inside c and on the pthread mutex inside m (offset-0 lemma checked), TRUE iff 0; "
              "signal = exactly one pthread_cond_signal, broadcast = exactly one pthread_cond_broadcast and no signal; NULL arguments fail without a native call. "
              "The atomic release-and-wait, return-with-mutex-held and wake-one/wake-all guarantees are then POSIX's for those calls. Loop-free: complete.")
LEVEL_NOTE = ("Trusted: the POSIX semantics of pthread_cond_wait/signal/broadcast (atomicity of release-and-wait, wake-ups, re-acquisition); 'producer/consumer exchanges always "
              "complete' (liveness over schedules) is not decided by this family -- only the wrapper refinement that reduces it to pthreads.")
