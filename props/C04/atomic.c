/* C04 -- contracts on every p_atomic_* operation of the three atomic models.
 * -DMODEL_C11 / -DMODEL_SYNC / -DMODEL_SIM selects the real source file.
 *
 * Rely/guarantee encoding: the word lives in a global; an environment step
 * (other threads doing arbitrary atomic operations on the same word) runs
 * immediately before and after every atomic builtin (c11/sync: self-referential
 * macro wrappers keep CBMC's own semantics of the builtin) or at lock/unlock of
 * the global mutex (sim: monitor rule).  g_pre/g_post are the word right before
 * and right after the single atomic step.  A contract of the form
 *   "exactly one atomic step; result = f(g_pre); g_post = g(g_pre, args)"
 * can only be met by an implementation whose whole read-modify-write is that one
 * step: a split load;store sees a havocked word in between. */
/* TRUSTED: __atomic_* / __sync_* builtins -- CBMC's built-in semantics (one indivisible read-modify-write); __atomic_load_4/8, __atomic_store_4/8: one-line models (no body in CBMC) */
/* TRUSTED: rely/guarantee and monitor proof rules; C11 memory model (SEQ_CST) and full-barrier semantics of __sync_synchronize are not modelled by CBMC */
/* TRUSTED: p_mutex_lock/p_mutex_unlock (sim model) -- monitor stubs: the word is havocked at lock and after unlock */
#include "env/verif.h"
#include "patomic.h"
#include "pmutex.h"

volatile pint  g_w32;            /* the atomic word (int ops) */
volatile psize g_w64;            /* the atomic word (pointer-width ops) */
unsigned g_atomics, g_fences, g_locks, g_unlocks;
_Bool    g_held, g_bad_order, g_wrong_word;
pint     g_pre32, g_post32, g_fence32;
psize    g_pre64, g_post64, g_fence64;
_Bool    g_quiet;               /* environment idle (single-threaded clause) */

static void env_step (void)
{
	if (!g_quiet) { g_w32 = nondet_int (); g_w64 = nondet_ulong (); }
}
static void verif_pre (const volatile void *p, int order)
{
	if (p != (const volatile void *) &g_w32 && p != (const volatile void *) &g_w64) g_wrong_word = 1;
	if (order != __ATOMIC_SEQ_CST) g_bad_order = 1;
	g_atomics++;
	env_step ();
	g_pre32 = g_w32; g_pre64 = g_w64;
}
static void verif_post (void)
{
	g_post32 = g_w32; g_post64 = g_w64;
	env_step ();
}
unsigned long verif_tmp;
#define WRAP_RMW(name, p, v, o) \
	(verif_pre ((const volatile void *) (p), (o)), verif_tmp = (unsigned long) name ((p), (v), (o)), verif_post (), (__typeof__ (*(p))) verif_tmp)

#if defined (MODEL_C11)
#  define __atomic_fetch_add(p, v, o) WRAP_RMW (__atomic_fetch_add, p, v, o)
#  define __atomic_fetch_sub(p, v, o) WRAP_RMW (__atomic_fetch_sub, p, v, o)
#  define __atomic_fetch_and(p, v, o) WRAP_RMW (__atomic_fetch_and, p, v, o)
#  define __atomic_fetch_or(p, v, o)  WRAP_RMW (__atomic_fetch_or, p, v, o)
#  define __atomic_fetch_xor(p, v, o) WRAP_RMW (__atomic_fetch_xor, p, v, o)
#  define __atomic_compare_exchange_n(p, e, d, w, so, fo) \
	(verif_pre ((const volatile void *) (p), (so)), (void) ((fo) != __ATOMIC_SEQ_CST ? (g_bad_order = 1) : 0), \
	 verif_tmp = (unsigned long) __atomic_compare_exchange_n ((p), (e), (d), (w), (so), (fo)), verif_post (), (_Bool) verif_tmp)
unsigned int __atomic_load_4 (const volatile void *p, int o)  { verif_pre (p, o); unsigned int r = *(const volatile unsigned int *) p; verif_post (); return r; }
unsigned long __atomic_load_8 (const volatile void *p, int o) { verif_pre (p, o); unsigned long r = *(const volatile unsigned long *) p; verif_post (); return r; }
void __atomic_store_4 (volatile void *p, unsigned int v, int o)  { verif_pre (p, o); *(volatile unsigned int *) p = v; verif_post (); }
void __atomic_store_8 (volatile void *p, unsigned long v, int o) { verif_pre (p, o); *(volatile unsigned long *) p = v; verif_post (); }
#  include "patomic-c11.c"
#  define ONE_STEP (g_atomics == 1 && !g_bad_order && !g_wrong_word)
#  define ONE_STEP_GET ONE_STEP
#  define ONE_STEP_SET ONE_STEP
#  define EXTRA_REQ 1
#elif defined (MODEL_SYNC)
#  define WRAP_SYNC(name, p, v) \
	(verif_pre ((const volatile void *) (p), __ATOMIC_SEQ_CST), verif_tmp = (unsigned long) name ((p), (v)), verif_post (), (__typeof__ (*(p))) verif_tmp)
#  define __sync_fetch_and_add(p, v) WRAP_SYNC (__sync_fetch_and_add, p, v)
#  define __sync_fetch_and_sub(p, v) WRAP_SYNC (__sync_fetch_and_sub, p, v)
#  define __sync_fetch_and_and(p, v) WRAP_SYNC (__sync_fetch_and_and, p, v)
#  define __sync_fetch_and_or(p, v)  WRAP_SYNC (__sync_fetch_and_or, p, v)
#  define __sync_fetch_and_xor(p, v) WRAP_SYNC (__sync_fetch_and_xor, p, v)
#  define __sync_bool_compare_and_swap(p, o, n) \
	(verif_pre ((const volatile void *) (p), __ATOMIC_SEQ_CST), verif_tmp = (unsigned long) __sync_bool_compare_and_swap ((p), (o), (n)), verif_post (), (_Bool) verif_tmp)
/* full barrier: other threads' stores become visible here (environment step), the word is snapshotted */
#  define __sync_synchronize() (g_fences++, g_pre32 = g_w32, g_pre64 = g_w64, env_step (), g_fence32 = g_w32, g_fence64 = g_w64, __sync_synchronize ())
#  include "patomic-sync.c"
#  define ONE_STEP (g_atomics == 1 && !g_wrong_word && g_fences == 0)
/* get: barrier first, then the load: the value returned is the one in memory after the barrier.
 * set: store first, then the barrier: the barrier (before other threads run) already sees the new value */
#  define ONE_STEP_GET (g_atomics == 0 && g_fences == 1)
#  define ONE_STEP_SET (g_atomics == 0 && g_fences == 1)
#  define EXTRA_REQ 1
#elif defined (MODEL_SIM)
static PMutex *pp_atomic_mutex;   /* tentative definition of the file's own static */
pboolean p_mutex_lock (PMutex *m)
{
	ENV_REQ (m == pp_atomic_mutex && m != NULL, "the one global atomic mutex is locked");
	ENV_REQ (!g_held, "not locked twice");
	g_locks++; g_held = 1; env_step (); g_pre32 = g_w32; g_pre64 = g_w64; return TRUE;
}
pboolean p_mutex_unlock (PMutex *m)
{
	ENV_REQ (m == pp_atomic_mutex && g_held, "the held global atomic mutex is unlocked");
	g_unlocks++; g_held = 0; g_post32 = g_w32; g_post64 = g_w64; env_step (); return TRUE;
}
unsigned g_mnew_calls, g_mnew_ok, g_mfree_calls;
PMutex *p_mutex_new (void) { g_mnew_calls++; if (nondet_bool ()) return NULL; PMutex *m = (PMutex *) malloc (1); __CPROVER_assume (m != NULL); g_mnew_ok++; return m; }
void p_mutex_free (PMutex *m) { if (m != NULL) g_mfree_calls++; free (m); }
#  include "patomic-sim.c"
/* the invariant every sim operation starts from -- one global mutex exists -- is established by every init (also the one
 * after a shutdown) and given up exactly once by shutdown */
void h_sim_lifecycle (void)
{
	pp_atomic_mutex = NULL; g_mnew_calls = g_mnew_ok = g_mfree_calls = 0;
	p_atomic_thread_init ();
	OBL (g_mnew_calls == 1 && (pp_atomic_mutex != NULL) == (g_mnew_ok == 1), "init creates the global mutex");
	unsigned c1 = g_mnew_calls; _Bool have = pp_atomic_mutex != NULL;
	p_atomic_thread_init ();
	OBL (g_mnew_calls == c1 + (have ? 0u : 1u), "a second init creates a mutex only if there is none (no leak, no silent no-op)");
	unsigned ok = g_mnew_ok;
	p_atomic_thread_shutdown ();
	OBL (pp_atomic_mutex == NULL && g_mfree_calls == ok, "shutdown releases the mutex exactly once and forgets it");
	p_atomic_thread_shutdown ();
	OBL (g_mfree_calls == ok, "a second shutdown releases nothing");
	unsigned c2 = g_mnew_calls, ok2 = g_mnew_ok;
	p_atomic_thread_init ();
	OBL (g_mnew_calls == c2 + 1 && (pp_atomic_mutex != NULL) == (g_mnew_ok == ok2 + 1), "init after shutdown creates the mutex again: operations are never left without their lock");
	if (pp_atomic_mutex != NULL) CANARY ("re-initialised"); else CANARY ("allocation failed");
}
#  define ONE_STEP (g_locks == 1 && g_unlocks == 1 && !g_held)
#  define ONE_STEP_GET ONE_STEP
#  define ONE_STEP_SET ONE_STEP
#  define EXTRA_REQ (pp_atomic_mutex != NULL)
#else
#  error "select a model"
#endif

#define INIT (g_atomics == 0 && g_fences == 0 && g_locks == 0 && g_unlocks == 0 && !g_held && !g_bad_order && !g_wrong_word && EXTRA_REQ)
#define GH g_atomics, g_fences, g_locks, g_unlocks, g_held, g_bad_order, g_wrong_word, g_pre32, g_post32, g_fence32, g_pre64, g_post64, g_fence64, g_w32, g_w64, verif_tmp

/* ---- contracts: result and stored value are the C expression on a wrapping word --- */
pint p_atomic_int_get (const volatile pint *atomic)
__CPROVER_requires (atomic == &g_w32 && INIT) __CPROVER_assigns (GH)
#ifdef MODEL_SYNC
__CPROVER_ensures (ONE_STEP_GET && __CPROVER_return_value == g_w32 && g_w32 == g_fence32)   /* loaded after the barrier */
#else
__CPROVER_ensures (ONE_STEP_GET && __CPROVER_return_value == g_pre32 && g_post32 == g_pre32)
#endif
;
void p_atomic_int_set (volatile pint *atomic, pint val)
__CPROVER_requires (atomic == &g_w32 && INIT) __CPROVER_assigns (GH)
#ifdef MODEL_SYNC
__CPROVER_ensures (ONE_STEP_SET && g_pre32 == val)   /* the barrier sees the stored value: store precedes it */
#else
__CPROVER_ensures (ONE_STEP_SET && g_post32 == val)
#endif
;
void p_atomic_int_inc (volatile pint *atomic)
__CPROVER_requires (atomic == &g_w32 && INIT) __CPROVER_assigns (GH)
__CPROVER_ensures (ONE_STEP && (puint) g_post32 == (puint) g_pre32 + 1u)
;
pboolean p_atomic_int_dec_and_test (volatile pint *atomic)
__CPROVER_requires (atomic == &g_w32 && INIT) __CPROVER_assigns (GH)
__CPROVER_ensures (ONE_STEP && (puint) g_post32 == (puint) g_pre32 - 1u)
__CPROVER_ensures ((__CPROVER_return_value == TRUE || __CPROVER_return_value == FALSE) && ((__CPROVER_return_value == TRUE) == (g_pre32 == 1)))
;
pboolean p_atomic_int_compare_and_exchange (volatile pint *atomic, pint oldval, pint newval)
__CPROVER_requires (atomic == &g_w32 && INIT) __CPROVER_assigns (GH)
__CPROVER_ensures (ONE_STEP && ((__CPROVER_return_value != FALSE) == (g_pre32 == oldval)))
__CPROVER_ensures (g_post32 == (g_pre32 == oldval ? newval : g_pre32))
;
pint p_atomic_int_add (volatile pint *atomic, pint val)
__CPROVER_requires (atomic == &g_w32 && INIT) __CPROVER_assigns (GH)
__CPROVER_ensures (ONE_STEP && __CPROVER_return_value == g_pre32 && (puint) g_post32 == (puint) g_pre32 + (puint) val)
;
puint p_atomic_int_and (volatile puint *atomic, puint val)
__CPROVER_requires (atomic == (volatile puint *) &g_w32 && INIT) __CPROVER_assigns (GH)
__CPROVER_ensures (ONE_STEP && __CPROVER_return_value == (puint) g_pre32 && (puint) g_post32 == ((puint) g_pre32 & val))
;
puint p_atomic_int_or (volatile puint *atomic, puint val)
__CPROVER_requires (atomic == (volatile puint *) &g_w32 && INIT) __CPROVER_assigns (GH)
__CPROVER_ensures (ONE_STEP && __CPROVER_return_value == (puint) g_pre32 && (puint) g_post32 == ((puint) g_pre32 | val))
;
puint p_atomic_int_xor (volatile puint *atomic, puint val)
__CPROVER_requires (atomic == (volatile puint *) &g_w32 && INIT) __CPROVER_assigns (GH)
__CPROVER_ensures (ONE_STEP && __CPROVER_return_value == (puint) g_pre32 && (puint) g_post32 == ((puint) g_pre32 ^ val))
;
ppointer p_atomic_pointer_get (const volatile void *atomic)
__CPROVER_requires (atomic == (const volatile void *) &g_w64 && INIT) __CPROVER_assigns (GH)
#ifdef MODEL_SYNC
__CPROVER_ensures (ONE_STEP_GET && (psize) __CPROVER_return_value == g_w64 && g_w64 == g_fence64)
#else
__CPROVER_ensures (ONE_STEP_GET && (psize) __CPROVER_return_value == g_pre64 && g_post64 == g_pre64)
#endif
;
void p_atomic_pointer_set (volatile void *atomic, ppointer val)
__CPROVER_requires (atomic == (volatile void *) &g_w64 && INIT) __CPROVER_assigns (GH)
#ifdef MODEL_SYNC
__CPROVER_ensures (ONE_STEP_SET && g_pre64 == (psize) val)
#else
__CPROVER_ensures (ONE_STEP_SET && g_post64 == (psize) val)
#endif
;
pboolean p_atomic_pointer_compare_and_exchange (volatile void *atomic, ppointer oldval, ppointer newval)
__CPROVER_requires (atomic == (volatile void *) &g_w64 && INIT) __CPROVER_assigns (GH)
__CPROVER_ensures (ONE_STEP && ((__CPROVER_return_value != FALSE) == (g_pre64 == (psize) oldval)))
__CPROVER_ensures (g_post64 == (g_pre64 == (psize) oldval ? (psize) newval : g_pre64))
;
pssize p_atomic_pointer_add (volatile void *atomic, pssize val)
__CPROVER_requires (atomic == (volatile void *) &g_w64 && INIT) __CPROVER_assigns (GH)
__CPROVER_ensures (ONE_STEP && (psize) __CPROVER_return_value == g_pre64 && g_post64 == g_pre64 + (psize) val)
;
psize p_atomic_pointer_and (volatile void *atomic, psize val)
__CPROVER_requires (atomic == (volatile void *) &g_w64 && INIT) __CPROVER_assigns (GH)
__CPROVER_ensures (ONE_STEP && __CPROVER_return_value == g_pre64 && g_post64 == (g_pre64 & val))
;
psize p_atomic_pointer_or (volatile void *atomic, psize val)
__CPROVER_requires (atomic == (volatile void *) &g_w64 && INIT) __CPROVER_assigns (GH)
__CPROVER_ensures (ONE_STEP && __CPROVER_return_value == g_pre64 && g_post64 == (g_pre64 | val))
;
psize p_atomic_pointer_xor (volatile void *atomic, psize val)
__CPROVER_requires (atomic == (volatile void *) &g_w64 && INIT) __CPROVER_assigns (GH)
__CPROVER_ensures (ONE_STEP && __CPROVER_return_value == g_pre64 && g_post64 == (g_pre64 ^ val))
;

/* ---- harnesses */
#define H0(n)            void h_##n (void) { volatile pint *a; p_atomic_##n (a); CANARY (#n); }
#define H1(n, T)         void h_##n (void) { volatile pint *a; T v; p_atomic_##n ((void *) a, v); CANARY (#n); }
#define H2(n, T)         void h_##n (void) { volatile pint *a; T v, w; p_atomic_##n ((void *) a, v, w); CANARY (#n); }
H0 (int_get) H1 (int_set, pint) H0 (int_inc) H0 (int_dec_and_test) H2 (int_compare_and_exchange, pint) H1 (int_add, pint)
H1 (int_and, puint) H1 (int_or, puint) H1 (int_xor, puint)
H0 (pointer_get) H1 (pointer_set, ppointer) H2 (pointer_compare_and_exchange, ppointer) H1 (pointer_add, pssize)
H1 (pointer_and, psize) H1 (pointer_or, psize) H1 (pointer_xor, psize)
