LEVEL = "proof"
OPS = ["int_get", "int_set", "int_inc", "int_dec_and_test", "int_compare_and_exchange", "int_add", "int_and", "int_or", "int_xor",
       "pointer_get", "pointer_set", "pointer_compare_and_exchange", "pointer_add", "pointer_and", "pointer_or", "pointer_xor"]
MODELS = {"c11": ("MODEL_C11", "patomic-c11.c"), "sync": ("MODEL_SYNC", "patomic-sync.c"), "sim": ("MODEL_SIM", "patomic-sim.c")}
UNITS = []
for m, (d, src) in MODELS.items():
    for op in OPS:
        UNITS.append(dict(id="%s_%s" % (m, op), harness="atomic.c", entry="h_" + op, sources=[src], enforce="p_atomic_" + op,
                          replace=[], defines=[d], timeout=300,
                          # CBMC's library model of the __atomic/__sync builtins does the arithmetic on the signed type and would be
                          # flagged; the real builtins wrap by definition. c11/sync files contain no other arithmetic. sim: check on.
                          checks=(["--bounds-check", "--pointer-check", "--div-by-zero-check", "--undefined-shift-check"] +
                                  (["--signed-overflow-check"] if m == "sim" else ["--no-signed-overflow-check"])),
                          replay=({"driver": "C04_replay.c", "mode": op, "sources": {"all_except": ["patomic-c11.c"], "plus": ["patomic-sim.c"]},
                                   "args": ["g_pre32", "g_pre64", "val", "v"]} if m == "sim" else None)))
UNITS.append(dict(id="sim_lifecycle", harness="atomic.c", entry="h_sim_lifecycle", sources=["patomic-sim.c"], enforce=None, replace=[], defines=["MODEL_SIM"], timeout=300, canaries=2,
                  functions=["p_atomic_thread_init", "p_atomic_thread_shutdown"]))
REQUIRE_CONFIGURED = ["patomic-c11.c"]
TECHNIQUE = "CBMC function contracts (DFCC) on every p_atomic_* of patomic-c11.c / -sync.c / -sim.c; rely/guarantee environment step around each atomic builtin (self-referential macro wrappers) resp. monitor rule on the global mutex"
LEVEL_TEXT = ("For each of the 16 operations in each of the three models, for all operand values: result and stored word equal the C expression on a wrapping "
              "32-/64-bit word, evaluated on the word as it is at the single atomic step (g_pre -> g_post) while the environment changes the word arbitrarily "
              "before and after that step; exactly one atomic builtin (c11: with __ATOMIC_SEQ_CST) / one lock-unlock bracket of the global mutex (sim); "
              "sync get/set: the plain access is on the correct side of the one full barrier. Loop-free: complete proofs. Linearizability of concurrent mixes "
              "follows from 'each op is one atomic step with the spec's effect' (paper step, not machine-checked).")
LEVEL_NOTE = ("Trusted: CBMC's semantics of the __atomic/__sync builtins, one-line models of __atomic_load/store_N, the rely/guarantee and monitor rules, "
              "hardware/compiler implementation of SEQ_CST and of __sync_synchronize as a full barrier. patomic-sync.c and patomic-sim.c are verified although "
              "CMake selects patomic-c11.c on this platform (static fact checked per run).")
