/* C05 (puthread.c): reference counting, creation handshake, join/exit code, current(). */
/* TRUSTED: p_atomic_int_inc / p_atomic_int_dec_and_test (C04 contracts) with interference: other holders of the handle change the counter before/after my atomic step, and after a non-final decrement may release the handle at any time */
/* TRUSTED: p_spinlock_lock/unlock (C01), p_uthread_*_internal (pthread_create/join/exit wrappers: join returns after the thread ended and its ret_code store is visible), p_uthread_get/set_local (verified in tls.c), p_strdup */
#include "env/verif.h"
#include "env/alloc.c"
#include "env/time.c"
#include "puthread.h"
#include "puthread-private.h"
#include "pspinlock.h"
#include "patomic.h"
#include "pstring.h"

typedef struct { PUThreadBase base; long hdl; } THR;      /* layout of a platform thread object: base first */
THR      *g_thr;                 /* the handle under test */
unsigned  g_incs, g_decs, g_free_internal, g_waits_int, g_exits, g_set_name, g_create_int;
_Bool     g_last;                /* my decrement reached zero */
_Bool     g_gone;                /* handle may already have been released by another holder */
unsigned  g_spin_locks, g_spin_unlocks; _Bool g_spin_held;
PUThreadBase g_snap; _Bool g_snapped;    /* handle fields when the start-up spinlock was released */
PUThreadFunc g_final_func; ppointer g_final_data; pchar *g_final_name;   /* what the creator writes before releasing the spinlock */
ppointer  g_tls_value; const void *g_tls_key_used; unsigned g_tls_sets, g_tls_gets;
unsigned  g_func_calls; ppointer g_func_arg; unsigned g_tls_sets_at_func;
pint      g_thread_code;         /* the code the target thread stored before it ended */
pchar    *g_dup; const pchar *g_dup_arg;

void p_atomic_int_inc (volatile pint *a) { ENV_REQ (a == &g_thr->base.ref_count, "inc on the handle's counter"); g_incs++; *a = (pint) ((puint) *a + 1); }
pboolean p_atomic_int_dec_and_test (volatile pint *a)
{
	ENV_REQ (a == &g_thr->base.ref_count, "dec on the handle's counter");
	g_decs++;
	pint others = nondet_int (); __CPROVER_assume (others >= 0 && others < 1000);   /* references held by others right now */
	*a = others + 1;                                                                /* mine + theirs */
	*a = *a - 1;
	g_last = (*a == 0);
	if (!g_last && nondet_bool ()) { g_gone = 1; free (g_thr); }                    /* someone else's final unref may follow immediately */
	return g_last ? TRUE : FALSE;
}
pboolean p_spinlock_lock (PSpinLock *s)
{
	ENV_REQ (!g_spin_held, "start-up spinlock not taken twice"); g_spin_locks++; g_spin_held = 1;
#ifdef UNIT_PROXY
	/* the new thread gets the lock only after the creator released it: only now are the handle's fields final */
	g_thr->base.func = g_final_func; g_thr->base.data = g_final_data; g_thr->base.name = g_final_name;
#endif
	return TRUE;
}
pboolean p_spinlock_unlock (PSpinLock *s)
{
	ENV_REQ (g_spin_held, "unlock of the held start-up spinlock"); g_spin_unlocks++; g_spin_held = 0;
	if (g_thr != NULL && !g_snapped) { g_snap = g_thr->base; g_snapped = 1; }
	return TRUE;
}
unsigned g_spin_new, g_spin_free, g_key_new, g_key_free; PDestroyFunc g_key_dtor; unsigned g_tls_sets_at_key_free;
PSpinLock *p_spinlock_new (void) { if (nondet_bool ()) return NULL; g_spin_new++; PSpinLock *s = malloc (1); __CPROVER_assume (s != NULL); return s; }
void p_spinlock_free (PSpinLock *s) { if (s == NULL) return; g_spin_free++; free (s); }
PUThreadKey *p_uthread_local_new (PDestroyFunc f) { g_key_dtor = f; if (nondet_bool ()) return NULL; g_key_new++; PUThreadKey *k = malloc (1); __CPROVER_assume (k != NULL); return k; }
void p_uthread_local_free (PUThreadKey *k) { if (k == NULL) return; g_key_free++; g_tls_sets_at_key_free = g_tls_sets; free (k); }
ppointer p_uthread_get_local (PUThreadKey *k) { g_tls_gets++; g_tls_key_used = k; return g_tls_value; }
void p_uthread_set_local (PUThreadKey *k, ppointer v) { g_tls_sets++; g_tls_key_used = k; g_tls_value = v; }
pchar *p_strdup (const pchar *s) { g_dup_arg = s; if (s == NULL || nondet_bool ()) { g_dup = NULL; return NULL; } g_dup = malloc (4); __CPROVER_assume (g_dup != NULL); g_allocs++; return g_dup; }
void p_uthread_init_internal (void) {}
void p_uthread_shutdown_internal (void) {}
void p_uthread_exit_internal (void) { ENV_REQ (g_thr != NULL && g_thr->base.ret_code == g_thread_code, "the exit code is stored in the handle before the thread ends"); g_exits++; }
void p_uthread_wait_internal (PUThread *t) { ENV_REQ ((void *) t == (void *) g_thr, "join waits for this thread"); g_waits_int++; g_thr->base.ret_code = g_thread_code; }
void p_uthread_free_internal (PUThread *t) { ENV_REQ ((void *) t == (void *) g_thr && !g_gone, "platform release of the live handle, once"); g_free_internal++; g_frees++; free (t); }
void p_uthread_set_name_internal (PUThread *t) { g_set_name++; }
_Bool g_create_fails; PUThreadFunc g_create_func; pboolean g_create_joinable;
PUThread *p_uthread_create_internal (PUThreadFunc func, pboolean joinable, PUThreadPriority prio, psize stack)
{
	ENV_REQ (g_spin_held, "the native thread is started while the creator holds the start-up spinlock");
	g_create_int++; g_create_func = func; g_create_joinable = joinable;
	if (g_create_fails) return NULL;
	g_thr = malloc (sizeof (THR)); __CPROVER_assume (g_thr != NULL); g_allocs++;
	return (PUThread *) g_thr;
}
#include "puthread.c"

static void reset (void)
{
	g_incs = g_decs = g_free_internal = g_waits_int = g_exits = g_set_name = g_create_int = 0; g_last = g_gone = 0;
	g_spin_locks = g_spin_unlocks = 0; g_spin_held = 0; g_snapped = 0; g_tls_sets = g_tls_gets = 0; g_func_calls = 0;
	g_allocs = g_frees = 0; g_alloc_failed = 0;
	pp_uthread_specific_data = malloc (1); pp_uthread_new_spin = malloc (1);
}
static THR *mk_thr (void)
{
	THR *t = malloc (sizeof (THR)); __CPROVER_assume (t != NULL);
	t->base.name = nondet_bool () ? NULL : malloc (4);
	t->base.ours = nondet_bool () ? TRUE : FALSE; t->base.joinable = nondet_int ();   /* pboolean is an int: the caller's 'joinable' may be any non-zero value */
	g_thr = t;
	return t;
}
/* ---- unref: released exactly once, by whoever drops the last reference; nothing touched otherwise */
void h_unref (void)
{
	reset (); THR *t = mk_thr (); _Bool ours = t->base.ours == TRUE; _Bool had_name = t->base.name != NULL;
	p_uthread_unref ((PUThread *) t);
	OBL (g_decs == 1 && g_incs == 0, "exactly one atomic decrement");
	if (g_last) { OBL (ours ? (g_free_internal == 1 && g_frees == 1 + (had_name ? 1 : 0)) : (g_free_internal == 0 && g_frees == 1 + (had_name ? 1 : 0)), "last reference: name and handle released exactly once, through the platform release for library threads"); CANARY ("last reference"); }
	else { OBL (g_frees == 0 && g_free_internal == 0, "not the last reference: nothing is released (and the handle is not touched again: pointer checks)"); CANARY ("other references remain"); }
	p_uthread_unref (NULL);
	OBL (g_decs == 1, "NULL handle ignored");
}
void h_ref (void)
{
	reset (); THR *t = mk_thr (); pint r0 = t->base.ref_count;
	p_uthread_ref ((PUThread *) t); p_uthread_ref (NULL);
	OBL (g_incs == 1 && g_decs == 0 && g_frees == 0 && t->base.ref_count == (pint) ((puint) r0 + 1), "ref = exactly one atomic increment");
	CANARY ("end");
}
/* ---- create: every field the new thread will read is written before the start-up spinlock is released */
static ppointer user_func (ppointer d) { g_func_calls++; g_func_arg = d; g_tls_sets_at_func = g_tls_sets; return NULL; }
void h_create (void)
{
	reset (); g_thr = NULL; g_create_fails = nondet_bool ();
	ppointer data = nondet_ptr (); pboolean joinable = nondet_bool () ? TRUE : FALSE; char name[4];
	PUThread *t = p_uthread_create_full (user_func, data, joinable, P_UTHREAD_PRIORITY_INHERIT, 0, nondet_bool () ? name : NULL);
	OBL (g_spin_locks == 1 && g_spin_unlocks == 1 && !g_spin_held && g_create_int == 1, "one native creation inside one lock/unlock of the start-up spinlock");
	OBL (g_create_func == (PUThreadFunc) pp_uthread_proxy && g_create_joinable == joinable, "the native thread runs the library proxy with the requested joinability");
	if (g_create_fails) { OBL (t == NULL && g_allocs == g_frees, "creation failure: NULL, spinlock released, nothing kept"); CANARY ("create failed"); return; }
	OBL ((void *) t == (void *) g_thr && g_snapped, "handle returned");
	/* two references from the start: the creator's and the running thread's own */
	OBL (g_snap.ref_count == 2 && g_snap.ours == TRUE && g_snap.joinable == joinable && g_snap.func == user_func && g_snap.data == data && g_snap.name == g_dup,
	     "at the release of the spinlock the handle already holds: two references, ours, joinable, the user's function and data, the name copy");
	OBL (g_thr->base.ref_count == g_snap.ref_count && g_thr->base.func == g_snap.func && g_thr->base.data == g_snap.data && g_thr->base.name == g_snap.name, "nothing is written after the release");
	CANARY ("created");
}
void h_create_null (void) { reset (); OBL (p_uthread_create_full (NULL, NULL, TRUE, P_UTHREAD_PRIORITY_INHERIT, 0, NULL) == NULL && g_spin_locks == 0 && g_create_int == 0, "NULL function: NULL, nothing started"); CANARY ("end"); }
/* ---- proxy: the thread's own reference is registered for release at thread exit, and the user's function runs once on the user's data, read after the handshake */
void h_proxy (void)
{
	reset (); THR *t = mk_thr ();
	t->base.func = NULL; t->base.data = nondet_ptr (); t->base.name = NULL;      /* not yet written by the creator */
	g_final_func = user_func; g_final_data = nondet_ptr (); g_final_name = nondet_bool () ? NULL : (pchar *) t;
	pp_uthread_proxy (t);
	OBL (g_spin_locks == 1 && g_spin_unlocks == 1, "the new thread passes through the start-up spinlock once");
	OBL (g_func_calls == 1 && g_func_arg == g_final_data, "the user's function runs exactly once with the data the creator stored");
	OBL (g_tls_sets_at_func == 1 && g_tls_key_used == (const void *) pp_uthread_specific_data && g_tls_value == (ppointer) t, "the handle is stored in the thread's own slot (its reference is dropped by the slot's destructor at thread exit)");
	OBL (g_set_name == (g_final_name != NULL ? 1u : 0u), "name applied iff given");
	CANARY ("end");
}
/* ---- join / exit code */
void h_join (void)
{
	reset (); THR *t = mk_thr (); t->base.ret_code = nondet_int (); g_thread_code = nondet_int ();
	_Bool joinable = t->base.joinable != FALSE;
	pint r = p_uthread_join ((PUThread *) t);
	if (joinable) { OBL (g_waits_int == 1 && r == g_thread_code, "join waits for the thread to end, then returns the code the thread stored"); CANARY ("joined"); }
	else { OBL (r == -1 && g_waits_int == 0, "non-joinable: -1 without waiting"); CANARY ("not joinable"); }
	OBL (p_uthread_join (NULL) == -1, "NULL: -1");
}
void h_exit (void)
{
	reset (); THR *t = mk_thr (); g_thread_code = nondet_int (); t->base.ret_code = 0;
	_Bool known = nondet_bool (); g_tls_value = known ? (ppointer) t : NULL; g_alloc_may_fail = 1;
	_Bool ours = t->base.ours == TRUE;
	p_uthread_exit (g_thread_code);
	if (known && ours) { OBL (g_exits == 1 && t->base.ret_code == g_thread_code, "exit stores the code, then ends the thread"); CANARY ("exited"); }
	else if (known) { OBL (g_exits == 0, "foreign thread: not ended by the library"); CANARY ("foreign"); }
	else { OBL (g_exits == 0, "thread unknown to the library: a fresh non-ours handle, not ended"); CANARY ("unknown thread"); }
}
void h_current (void)
{
	reset (); THR *t = mk_thr (); _Bool known = nondet_bool (); g_tls_value = known ? (ppointer) t : NULL;
	PUThread *c = p_uthread_current ();
	if (known) { OBL ((void *) c == (void *) t && g_tls_sets == 0 && g_allocs == 0, "known thread: its handle"); CANARY ("known"); }
	else if (c != NULL) { OBL (((PUThreadBase *) c)->ref_count == 1 && ((PUThreadBase *) c)->ours == FALSE && g_tls_sets == 1 && g_tls_value == (ppointer) c, "unknown thread: fresh handle with one reference owned by the thread's slot"); CANARY ("adopted"); }
	else { OBL (g_alloc_failed && g_tls_sets == 0, "allocation failure: NULL"); CANARY ("alloc failed"); }
}

/* ---- C20: p_uthread_init / p_uthread_shutdown (called by p_libsys_init/shutdown): the start-up spinlock and the TLS key of
 * the "current thread" slot are created at most once however often init runs, and are released exactly once by shutdown;
 * the main thread's own handle (created lazily by p_uthread_current) is dropped before its slot goes away */
void h_init_shutdown (void)
{
	g_spin_new = g_spin_free = g_key_new = g_key_free = 0; g_tls_sets = g_tls_gets = 0; g_decs = 0; g_free_internal = 0; g_allocs = g_frees = 0; g_gone = 0; g_tls_value = NULL;
	pp_uthread_specific_data = NULL; pp_uthread_new_spin = NULL;
	p_uthread_init ();
	OBL (g_key_dtor == (PDestroyFunc) pp_uthread_cleanup, "the slot's destroy notifier is the thread clean-up (drops a thread's own reference at its exit)");
	p_uthread_init ();
	OBL (g_spin_new <= 1 + (pp_uthread_new_spin != NULL ? 0u : 1u) && g_key_new <= 1 + (pp_uthread_specific_data != NULL ? 0u : 1u), "a second init creates only what the first could not");
	unsigned live_spin = pp_uthread_new_spin != NULL, live_key = pp_uthread_specific_data != NULL;
	OBL (g_spin_new == live_spin && g_key_new == live_key, "init never replaces (and so never leaks) an existing spinlock or key");
	/* the main thread may have asked for its handle in between */
	_Bool has_handle = live_key && nondet_bool ();
	if (has_handle) { g_thr = malloc (sizeof (THR)); __CPROVER_assume (g_thr != NULL); g_thr->base.ref_count = 1; g_thr->base.ours = FALSE; g_thr->base.name = NULL; g_tls_value = g_thr; g_allocs = 1; }
	p_uthread_shutdown ();
	OBL (g_spin_free == live_spin && g_key_free == live_key && pp_uthread_new_spin == NULL && pp_uthread_specific_data == NULL, "shutdown releases the spinlock and the key exactly once and forgets them");
	if (has_handle) { OBL (g_decs == 1 && g_tls_value == NULL && g_tls_sets_at_key_free >= 1, "the main thread's handle is dropped and its slot cleared before the key goes away"); CANARY ("main thread had a handle"); }
	p_uthread_shutdown ();
	OBL (g_spin_free == live_spin && g_key_free == live_key, "a second shutdown releases nothing again");
	if (live_spin && live_key) CANARY ("both created"); if (!live_key) CANARY ("key allocation failed");
}

/* ---- the destructor of the library's own "current thread" slot (runs at thread exit): it drops exactly the thread's own
 * reference -- one atomic decrement, the handle released only if that was the last reference, whoever created the handle */
void h_cleanup (void)
{
	reset (); THR *t = mk_thr (); _Bool ours = t->base.ours == TRUE; _Bool had_name = t->base.name != NULL;
	pp_uthread_cleanup (t);
	OBL (g_decs == 1 && g_incs == 0, "thread exit drops exactly one reference (one atomic decrement)");
	if (g_last) { OBL (g_frees == 1 + (had_name ? 1 : 0) && g_free_internal == (ours ? 1u : 0u), "last reference: released exactly once"); CANARY ("last reference"); }
	else { OBL (g_frees == 0 && g_free_internal == 0, "a handle somebody still references survives the exit of its thread"); CANARY ("other references remain"); }
}
