/* C05 (puthread-posix.c): TLS keys -- lazy creation with a compare-and-swap that another thread may win; the destroy
 * notifier is handed to pthread_key_create (POSIX then runs it once per non-NULL value at thread exit); replace runs
 * it exactly once on the old value; set never runs it; freeing the key object does not destroy the native slot. */
/* TRUSTED: pthread_key_create/delete/getspecific/setspecific (call-log stubs; POSIX: per-thread values, destructor once per non-NULL value at thread exit); p_atomic_pointer_get/compare_and_exchange (C04) with interference: another thread may publish its key between my load and my CAS */
#include "env/verif.h"
#include "env/alloc.c"
#include <pthread.h>
#include "patomic.h"
unsigned g_kcreate, g_kdelete, g_getspec, g_setspec, g_cas; _Bool g_kcreate_fails, g_kdelete_fails, g_cas_loses;
void (*g_kcreate_dtor) (void *); pthread_key_t g_created_key, g_deleted_key, g_spec_key; const void *g_spec_value; void *g_slot;   /* this thread's value in the slot */
pthread_key_t *g_winner;         /* key block another thread published first */
void **g_keyfield;               /* &key->key of the PUThreadKey under test */
unsigned g_dtor_calls; void *g_dtor_arg; unsigned g_setspec_at_dtor;
int pthread_key_create (pthread_key_t *k, void (*d) (void *)) { g_kcreate++; g_kcreate_dtor = d; if (g_kcreate_fails) return 11; *k = nondet_uint (); g_created_key = *k; return 0; }
int pthread_key_delete (pthread_key_t k) { g_kdelete++; g_deleted_key = k; return g_kdelete_fails ? 22 : 0; }
void *pthread_getspecific (pthread_key_t k) { g_getspec++; g_spec_key = k; return g_slot; }
int pthread_setspecific (pthread_key_t k, const void *v) { g_setspec++; g_spec_key = k; g_spec_value = v; g_slot = (void *) v; return nondet_bool () ? 0 : 12; }
ppointer p_atomic_pointer_get (const volatile void *a) { ENV_REQ (a == (const volatile void *) g_keyfield, "atomic load of the key field"); return *g_keyfield; }
pboolean p_atomic_pointer_compare_and_exchange (volatile void *a, ppointer o, ppointer n)
{
	ENV_REQ (a == (volatile void *) g_keyfield, "CAS on the key field"); g_cas++;
	if (g_cas_loses && *g_keyfield == NULL) *g_keyfield = g_winner;   /* another thread publishes its key first */
	if (*g_keyfield == o) { *g_keyfield = n; return TRUE; }
	return FALSE;
}
#ifdef UNIT_CREATE_INTERNAL
/* TRUSTED: pthread_attr_* / pthread_create / sysconf (call-log stubs: any result); sched_get_priority_min/max: -1 or a value in 0..255 */
#include <sched.h>
#include <unistd.h>
unsigned g_attr_inits, g_attr_destroys, g_pcreates, g_pcreate_ok; _Bool g_attr_live; void *g_pcreate_arg; void *(*g_pcreate_fn) (void *);
int pthread_attr_init (pthread_attr_t *a) { if (nondet_bool ()) return 12; g_attr_inits++; g_attr_live = 1; return 0; }
int pthread_attr_destroy (pthread_attr_t *a) { ENV_REQ (g_attr_live, "pthread_attr_destroy: an initialised attribute object, once"); g_attr_destroys++; g_attr_live = 0; return 0; }
int pthread_attr_setdetachstate (pthread_attr_t *a, int d) { ENV_REQ (g_attr_live, "attribute object initialised"); return nondet_bool () ? 0 : 22; }
int pthread_attr_setinheritsched (pthread_attr_t *a, int i) { ENV_REQ (g_attr_live, "attribute object initialised"); return nondet_bool () ? 0 : 22; }
int pthread_attr_getschedpolicy (const pthread_attr_t *a, int *p) { ENV_REQ (g_attr_live, "attribute object initialised"); if (nondet_bool ()) return 22; *p = nondet_int (); return 0; }
int pthread_attr_setschedpolicy (pthread_attr_t *a, int p) { ENV_REQ (g_attr_live, "attribute object initialised"); return nondet_bool () ? 0 : 22; }
int pthread_attr_setschedparam (pthread_attr_t *a, const struct sched_param *p) { ENV_REQ (g_attr_live, "attribute object initialised"); return nondet_bool () ? 0 : 22; }
int pthread_attr_setstacksize (pthread_attr_t *a, size_t n) { ENV_REQ (g_attr_live, "attribute object initialised"); return nondet_bool () ? 0 : 22; }
/* priority limits of a policy: -1 on error, else a small non-negative number (Linux 0..99; no known system exceeds 255) */
int sched_get_priority_min (int p) { int r = nondet_int (); __CPROVER_assume (r >= -1 && r <= 255); return r; }
int sched_get_priority_max (int p) { int r = nondet_int (); __CPROVER_assume (r >= -1 && r <= 255); return r; }
long sysconf (int n) { return nondet_long (); }
int pthread_create (pthread_t *t, const pthread_attr_t *a, void *(*fn) (void *), void *arg)
{
	ENV_REQ (g_attr_live && g_pcreate_ok == 0, "pthread_create: with the initialised attributes, never again after a thread was started");
	g_pcreates++; g_pcreate_fn = fn; g_pcreate_arg = arg;
	int r = nondet_int (); if (r == 0) { g_pcreate_ok++; *t = nondet_ulong (); } return r;
}
#endif
#ifdef UNIT_SET_NAME
/* TRUSTED: pthread_setname_np (call-log stub: Linux rejects names longer than 15 characters + NUL with ERANGE) */
const char *g_orig_name; unsigned g_setname_calls; _Bool g_setname_too_long, g_setname_not_prefix;
int pthread_setname_np (pthread_t t, const char *name)
{
	g_setname_calls++;
	unsigned n = 0; while (n < 40 && name[n] != 0) n++;
	if (n > 15) g_setname_too_long = 1;
	for (unsigned i = 0; i < n && i < 40; i++) if (name[i] != g_orig_name[i]) g_setname_not_prefix = 1;
	return nondet_bool () ? 0 : 34;
}
#endif
#include "puthread-posix.c"
#ifdef UNIT_SET_NAME
/* C18: thread names longer than the platform limit are truncated into a temporary copy; whichever way the allocation
 * goes, the system gets a name of at most 15 characters that is a prefix of the thread's name, and the copy is released */
void h_set_name (void)
{
	char name[24]; unsigned len = nondet_uint (); __CPROVER_assume (len >= 1 && len <= 23);
	for (unsigned i = 0; i < 23; i++) { name[i] = (char) nondet_uchar (); __CPROVER_assume ((i < len) == (name[i] != 0)); } name[23] = 0;
	PUThread *t = malloc (sizeof (PUThread)); __CPROVER_assume (t != NULL);
	t->base.name = name; g_orig_name = name;
	g_alloc_may_fail = 1; g_alloc_failed = 0; g_allocs = g_frees = 0; g_setname_calls = 0; g_setname_too_long = g_setname_not_prefix = 0;
	p_uthread_set_name_internal (t);
	OBL (g_allocs == g_frees, "the temporary copy of a long name is released");
	OBL (g_setname_calls <= 1 && (g_setname_calls == 1 || g_alloc_failed), "the system name is set once, unless the copy could not be allocated");
	OBL (!g_setname_too_long && !g_setname_not_prefix, "the system gets at most 15 characters, a prefix of the thread's name");
	if (len > 15 && g_setname_calls == 1) CANARY ("long name truncated"); if (len <= 15) CANARY ("short name passed as is"); if (g_alloc_failed) CANARY ("copy failed");
}
#endif
#ifdef UNIT_CREATE_INTERNAL
static void *thread_fn (void *a) { return a; }
/* C05/C18/C20: the native thread handle -- one block, attribute object destroyed exactly once on every exit, at most one
 * thread started, the handle itself handed to the new thread, nothing kept on failure */
void h_create_internal (void)
{
	g_alloc_may_fail = 1; g_alloc_failed = 0; g_allocs = g_frees = 0; g_attr_inits = g_attr_destroys = g_pcreates = g_pcreate_ok = 0; g_attr_live = 0;
	pboolean joinable = nondet_bool () ? TRUE : FALSE; int prio = nondet_int (); psize stack = nondet_size_t ();
	__CPROVER_assume (prio >= (int) P_UTHREAD_PRIORITY_INHERIT && prio <= (int) P_UTHREAD_PRIORITY_TIMECRITICAL);
	PUThread *t = p_uthread_create_internal (thread_fn, joinable, (PUThreadPriority) prio, stack);
	OBL (!g_attr_live && g_attr_inits == g_attr_destroys, "the attribute object is destroyed exactly once on every exit");
	if (t == NULL) {
		OBL (g_allocs == g_frees && g_pcreate_ok == 0, "failed create: no thread runs, nothing stays allocated");
		CANARY ("create failed"); return;
	}
	OBL (g_pcreate_ok == 1 && g_pcreate_fn == thread_fn && g_pcreate_arg == (void *) t, "exactly one thread is started, with the handle as its argument");
	OBL (g_allocs == g_frees + 1 && t->base.joinable == joinable && t->base.prio == (PUThreadPriority) prio, "one handle block, joinable/priority recorded");
	OBL (t->base.ret_code == 0, "a new handle carries exit code 0: p_uthread_join reports 0 for a thread whose function simply returns (only p_uthread_exit stores a code)");
	if (g_pcreates == 2) CANARY ("retried after EPERM");
	p_uthread_free_internal (t);
	OBL (g_allocs == g_frees, "free_internal releases the handle");
	CANARY ("created");
}
#endif

static void dtor (void *v) { g_dtor_calls++; g_dtor_arg = v; g_setspec_at_dtor = g_setspec; }
static PUThreadKey *mk_key (_Bool with_dtor, _Bool created)
{
	PUThreadKey *k = malloc (sizeof (PUThreadKey)); __CPROVER_assume (k != NULL);
	k->free_func = with_dtor ? dtor : NULL;
	g_winner = malloc (sizeof (pthread_key_t)); __CPROVER_assume (g_winner != NULL);
	k->key = created ? malloc (sizeof (pthread_key_t)) : NULL; __CPROVER_assume (!created || k->key != NULL);
	g_keyfield = (void **) &k->key;
	g_kcreate = g_kdelete = g_getspec = g_setspec = g_cas = 0; g_dtor_calls = 0; g_allocs = g_frees = 0; g_alloc_failed = 0;
	g_kcreate_fails = nondet_bool (); g_kdelete_fails = nondet_bool (); g_cas_loses = nondet_bool ();
	return k;
}
void h_get_tls_key (void)
{
	_Bool created = nondet_bool (), with_dtor = nondet_bool ();
	PUThreadKey *k = mk_key (with_dtor, created); pthread_key_t *before = k->key;
	pthread_key_t *r = pp_uthread_get_tls_key (k);
	if (created) { OBL (r == before && g_kcreate == 0 && g_allocs == 0, "existing key: returned as is"); CANARY ("existing"); return; }
	if (r == NULL) { OBL (g_allocs == g_frees, "failure: nothing stays allocated"); OBL (g_alloc_failed || g_kcreate_fails || (g_cas_loses && g_kdelete_fails), "fails only for a reason"); CANARY ("failed"); return; }
	OBL (g_kcreate == 1 && g_kcreate_dtor == (with_dtor ? dtor : NULL), "the native key is created with the caller's destroy notifier (runs once per non-NULL value at thread exit)");
	if (g_cas_loses) {
		OBL (r == g_winner && k->key == g_winner, "lost the race: the winner's key is used by everybody");
		OBL (g_kdelete == 1 && g_deleted_key == g_created_key && g_allocs == g_frees, "loser deletes its own native key and frees its own block");
		CANARY ("lost the publication race");
	} else {
		OBL (r == k->key && *r == g_created_key && g_kdelete == 0 && g_allocs == g_frees + 1, "won: its key is published exactly once and stays");
		CANARY ("published");
	}
}
void h_set_replace_get (void)
{
	_Bool with_dtor = nondet_bool ();
	PUThreadKey *k = mk_key (with_dtor, 1); g_cas_loses = 0;
	void *old = nondet_ptr (), *nv = nondet_ptr ();
	g_slot = old;
	OBL (p_uthread_get_local (k) == old && g_getspec == 1 && g_spec_key == *k->key, "get returns this thread's value of the key's native slot");
	p_uthread_set_local (k, nv);
	OBL (g_dtor_calls == 0 && g_setspec == 1 && g_slot == nv && g_spec_key == *k->key, "set stores the value and never runs the notifier");
	g_slot = old; g_setspec = 0;
	p_uthread_replace_local (k, nv);
	OBL (g_setspec == 1 && g_slot == nv, "replace stores the new value");
	if (old != NULL && with_dtor) { OBL (g_dtor_calls == 1 && g_dtor_arg == old && g_setspec_at_dtor == 0, "replace runs the notifier exactly once, on the old value, before the new one is stored"); CANARY ("old value destroyed"); }
	else { OBL (g_dtor_calls == 0, "no old value or no notifier: nothing destroyed"); CANARY ("nothing to destroy"); }
	p_uthread_set_local (NULL, nv); p_uthread_replace_local (NULL, nv);
	OBL (p_uthread_get_local (NULL) == NULL && g_setspec == 1, "NULL key ignored");
}
void h_local_new_free (void)
{
	g_allocs = g_frees = 0; g_kcreate = g_kdelete = 0;
	PUThreadKey *k = p_uthread_local_new (dtor);
	if (k == NULL) { OBL (g_allocs == g_frees, "failed new keeps nothing"); CANARY ("new failed"); return; }
	OBL (k->free_func == dtor && k->key == NULL && g_kcreate == 0, "new records the notifier; the native slot is created lazily");
	pthread_key_t *blk = malloc (sizeof (pthread_key_t)); __CPROVER_assume (blk != NULL); k->key = blk;
	p_uthread_local_free (k);
	/* documented: only the reference object is released; values other threads still hold keep their slot and their destructor */
	OBL (g_kdelete == 0 && g_frees == 1, "free releases the key object only: the native slot (and pending destructors of running threads) survive");
	p_uthread_local_free (NULL);
	CANARY ("end");
}
