LEVEL = "proof"
def U(id, entry, harness, src, **kw):
    d = dict(id=id, harness=harness, entry=entry, sources=[src], enforce=None, replace=[], timeout=600, functions=[], cbmc_flags=["--object-bits", "10"])
    d.update(kw); return d
T = "puthread.c"; P = "puthread-posix.c"
UNITS = [
    U("unref", "h_unref", "thread.c", T, canaries=2, functions=["p_uthread_unref"]),
    U("cleanup", "h_cleanup", "thread.c", T, canaries=2, functions=["pp_uthread_cleanup"]),
    U("ref", "h_ref", "thread.c", T, functions=["p_uthread_ref"]),
    U("create_full", "h_create", "thread.c", T, canaries=2, functions=["p_uthread_create_full"]),
    U("create_null", "h_create_null", "thread.c", T),
    U("proxy", "h_proxy", "thread.c", T, defines=["UNIT_PROXY"], functions=["pp_uthread_proxy"]),
    U("join", "h_join", "thread.c", T, canaries=2, functions=["p_uthread_join"]),
    U("exit", "h_exit", "thread.c", T, canaries=3, functions=["p_uthread_exit"]),
    U("current", "h_current", "thread.c", T, canaries=3, functions=["p_uthread_current"]),
    U("get_tls_key", "h_get_tls_key", "tls.c", P, canaries=4, functions=["pp_uthread_get_tls_key"]),
    U("set_replace_get", "h_set_replace_get", "tls.c", P, canaries=2, functions=["p_uthread_get_local", "p_uthread_set_local", "p_uthread_replace_local"]),
    U("local_new_free", "h_local_new_free", "tls.c", P, canaries=2, functions=["p_uthread_local_new", "p_uthread_local_free"]),
    U("init_shutdown", "h_init_shutdown", "thread.c", T, canaries=3, functions=["p_uthread_init", "p_uthread_shutdown"]),
    U("set_name_internal", "h_set_name", "tls.c", P, defines=["UNIT_SET_NAME"], canaries=3, functions=["p_uthread_set_name_internal"], cbmc_flags=["--unwind", "42", "--unwinding-assertions", "--object-bits", "10"],
      bound="thread names of 1..23 characters (the platform limit is 15): string loops fully unwound, unwinding assertions on"),
    U("create_internal", "h_create_internal", "tls.c", P, defines=["UNIT_CREATE_INTERNAL"], canaries=3, functions=["p_uthread_create_internal", "p_uthread_free_internal", "pp_uthread_get_unix_priority"]),
]
REQUIRE_CONFIGURED = ["puthread.c", "puthread-posix.c"]
TECHNIQUE = "CBMC obligations on the real puthread.c / puthread-posix.c with rely/guarantee stubs: other reference holders act around the atomic decrement, the creator/new-thread handshake is a monitor on the start-up spinlock, a rival thread may win the TLS key publication CAS"
LEVEL_TEXT = ("unref: exactly one atomic decrement; the handle and its name are released exactly once by whoever drops the last reference (platform release for library threads) and are not "
              "touched after a non-final decrement (another holder may release them at once: modelled by freeing the object, pointer checks catch any access); ref: one atomic increment. "
              "create_full: ref_count 2, ours, joinable, function, data and name are all in place when the start-up spinlock is released and nothing is written afterwards; the proxy reads "
              "them only after passing the spinlock, stores the handle in the thread's slot and calls the user's function once with the user's data. join: waits (pthread_join) before reading "
              "the code, -1 without waiting for non-joinable; exit stores the code before ending the thread, never ends a foreign thread. TLS: native key created with the caller's notifier, "
              "published by CAS exactly once, the loser deletes and frees its own; replace runs the notifier once on the old value before storing, set never; freeing a key object does not delete the slot. Loop-free: complete.")
LEVEL_NOTE = ("Trusted: pthreads (join waits for termination and makes the thread's writes visible; TLS destructor once per non-NULL value at thread exit), the C01/C04 contracts of spinlock and "
              "atomics, the rely/guarantee argument. Scheduling, and that the thread really runs, are the kernel's. p_uthread_create_internal (pthread attributes) is not under contract.")
