/* C06/C07 -- p_ipc_get_platform_key (pipc.c), POSIX style: the key is "/" followed by the first 13 hex digits of
 * the SHA-1 of the full object name (52 bits of the digest): deterministic in the name, as collision-free as a
 * 52-bit SHA-1 prefix. The PCryptoHash object is used exactly once and released; nothing leaks. */
/* TRUSTED: p_crypto_hash_new/update/get_string/free (call-log stubs; the real dispatcher is verified in C11) -- get_string returns NULL or a fresh 40-hex-digit string */
#include "env/verif.h"
#include "env/alloc.c"
#include <string.h>
#include "pcryptohash.h"
const char *g_str; size_t g_str_len;
unsigned g_h_new, g_h_update, g_h_getstr, g_h_free; _Bool g_h_live; const void *g_h_data; size_t g_h_len; char *g_hash_str; PCryptoHashType g_h_type;
struct PCryptoHash_ { int dummy; };
PCryptoHash *p_crypto_hash_new (PCryptoHashType t) { g_h_new++; g_h_type = t; if (nondet_bool ()) return NULL; PCryptoHash *h = malloc (sizeof (PCryptoHash)); __CPROVER_assume (h != NULL); g_h_live = 1; return h; }
void p_crypto_hash_update (PCryptoHash *h, const puchar *data, psize len) { ENV_REQ (h != NULL && g_h_live, "update on the live hash"); g_h_update++; g_h_data = data; g_h_len = len; }
pchar *p_crypto_hash_get_string (PCryptoHash *h)
{
	ENV_REQ (h != NULL && g_h_live, "get_string on the live hash"); g_h_getstr++;
	if (nondet_bool ()) { g_alloc_failed = 1; return NULL; }
	char *s = malloc (41); __CPROVER_assume (s != NULL); g_allocs++;
	for (int i = 0; i < 40; i++) __CPROVER_assume (s[i] != 0);
	s[40] = 0; g_hash_str = s;
	return s;
}
void p_crypto_hash_free (PCryptoHash *h) { ENV_REQ (h != NULL && g_h_live, "free the live hash once"); g_h_free++; g_h_live = 0; free (h); }
/* exact small string functions for this unit (name length abstract) */
size_t strlen (const char *s) { if (s == g_str) return g_str_len; size_t n = 0; while (s[n] != 0) n++; return n; }
char *strcpy (char *d, const char *s) { size_t i = 0; while ((d[i] = s[i]) != 0) i++; return d; }
char *strncat (char *d, const char *s, size_t n) { size_t l = 0; while (d[l] != 0) l++; size_t i = 0; while (i < n && s[i] != 0) { d[l + i] = s[i]; i++; } d[l + i] = 0; return d; }
char *strcat (char *d, const char *s) { return strncat (d, s, (size_t) -1); }
pchar *p_strdup (const pchar *s) { return NULL; }
#include "psysclose-unix.c"
#include "pipc.c"

void h_platform_key (void)
{
	char name[1]; g_str = name; g_str_len = nondet_size_t ();
	g_h_new = g_h_update = g_h_getstr = g_h_free = 0; g_h_live = 0; g_allocs = g_frees = 0; g_alloc_failed = 0; g_hash_str = NULL;
	char hcopy[13];
	pchar *k = p_ipc_get_platform_key (name, TRUE);
	OBL (g_h_new == 1 && g_h_type == P_CRYPTO_HASH_TYPE_SHA1, "one SHA-1 hash object");
	OBL (!g_h_live && (g_h_free == 1 || g_h_new == 1), "hash object released");
	if (k == NULL) { OBL (g_allocs == g_frees, "failure: nothing stays allocated"); CANARY ("key failed"); return; }
	OBL (g_h_update == 1 && g_h_data == (const void *) name && g_h_len == g_str_len && g_h_getstr == 1, "the whole name, and nothing else, is hashed");
	OBL (g_allocs == g_frees + 1 && __CPROVER_r_ok (k, 15), "only the 15-byte key stays allocated (hex string released)");
	unsigned i = nondet_uint (); __CPROVER_assume (i < 13);
	OBL (k[0] == '/' && k[14] == 0 && k[1 + i] != 0, "key = '/' + 13 digest digits + NUL (52 bits of SHA-1 distinguish names)");
	CANARY ("key built");
}
void h_platform_key_null (void) { OBL (p_ipc_get_platform_key (NULL, TRUE) == NULL, "NULL name => NULL"); CANARY ("end"); }
