/* C06 -- contracts on the real functions of psemaphore-posix.c against the ghost
 * model of the POSIX named-semaphore namespace (env/posix_sem.c).  The pre-state
 * ranges over EVERY namespace state (name bound or not, any counter value): that
 * is a superset of the states a process killed at any point can leave behind. */
/* TRUSTED: p_ipc_get_platform_key (abstract here) -- returns NULL (allocation failure) or a fresh string that is a deterministic, collision-free function of the name (SHA-1 prefix; its construction is verified in unit platform_key); the returned pointer is the ghost g_key */
#include "env/verif.h"
#include "env/alloc.c"
#include "env/perror_stub.c"
#include "env/str_abs.c"
#include "env/posix_sem.c"
#include <semaphore.h>
#define sem_open verif_sem_open
#include "pipc-private.h"

unsigned long g_key_calls;
pchar *p_ipc_get_platform_key (const pchar *name, pboolean posix)
{
	ENV_REQ (name != NULL && name == g_buf && posix == TRUE, "platform key is derived from <name>_p_sem_object, POSIX style");
	ENV_REQ (g_buf_len == g_str_len + 13, "platform key is derived from the full name plus the semaphore suffix");
	g_key_calls++;
	if (g_alloc_may_fail && nondet_bool ()) { g_alloc_failed = 1; g_key = NULL; return NULL; }
	char *k = malloc (15);
	__CPROVER_assume (k != NULL);
	g_allocs++; g_key = k;
	return k;
}

#include "psemaphore-posix.c"

/* a PSemaphore handle built by the harness (ghost pointers must be assigned, not assumed) */
static PSemaphore *mk_sem (_Bool owner)
{
	PSemaphore *s = malloc (sizeof (PSemaphore));
	char *k = malloc (15);
	__CPROVER_assume (s != NULL && k != NULL);
	g_key = k; s->platform_key = k; s->sem_created = owner ? TRUE : FALSE; s->sem_hdl = &g_sem_obj;
	g_hdl_open = 1; hdl_id = nondet_ulong (); hdl_value = nondet_uint ();
	/* the name may still be bound to the handle's counter, to another one (re-created since), or to nothing */
	ns_exists = nondet_bool (); ns_id = nondet_ulong (); ns_value = nondet_uint (); g_next_id = nondet_ulong ();
	__CPROVER_assume (hdl_id <= g_next_id && ns_id <= g_next_id);
	g_env_active = 0;
	g_sem_opens = g_sem_closes = g_sem_unlinks = g_sem_waits_ok = g_sem_posts_ok = g_sem_creates = 0; g_sem_other_error = 0;
	g_err_calls = 0; g_allocs = 2; g_frees = 0; g_alloc_failed = 0;
	return s;
}
/* __CPROVER_old cannot wrap a conditional expression: spell it out over the scalars */
#define OLD_HVAL ((__CPROVER_old (ns_exists) && __CPROVER_old (hdl_id) == __CPROVER_old (ns_id)) ? __CPROVER_old (ns_value) : __CPROVER_old (hdl_value))
#define SEM_COUNTS_ZERO (g_sem_opens == 0 && g_sem_closes == 0 && g_sem_unlinks == 0 && g_sem_waits_ok == 0 && g_sem_posts_ok == 0 && g_sem_creates == 0 && !g_sem_other_error && g_err_calls == 0)
#define ERR_GHOSTS g_err_code, g_err_native, g_err_calls
#define HANDLE_OK(s) ((s) != NULL && g_hdl_open && (s)->sem_hdl == &g_sem_obj && (s)->platform_key == g_key && !g_env_active)

/* ------------------------------------------------------------------ acquire / release */
pboolean
p_semaphore_acquire (PSemaphore *sem, PError **error)
__CPROVER_requires (HANDLE_OK (sem) && error == NULL && SEM_COUNTS_ZERO)
__CPROVER_assigns (SEM_GHOSTS, ERR_GHOSTS)
__CPROVER_ensures (__CPROVER_return_value == TRUE || __CPROVER_return_value == FALSE)
/* returns TRUE only by consuming exactly one unit of the handle's counter; interruptions are invisible */
__CPROVER_ensures (__CPROVER_return_value == TRUE ==> (g_sem_waits_ok == 1 && HVAL == OLD_HVAL - 1 && OLD_HVAL > 0 && g_err_calls == 0))
__CPROVER_ensures (__CPROVER_return_value == FALSE ==> (g_sem_waits_ok == 0 && HVAL == OLD_HVAL && g_err_calls == 1 && g_err_native != EINTR && g_sem_other_error))
__CPROVER_ensures (g_hdl_open && ns_exists == __CPROVER_old (ns_exists) && ns_id == __CPROVER_old (ns_id) && g_sem_unlinks == 0 && g_sem_closes == 0 && g_sem_opens == 0 && g_sem_posts_ok == 0)
;
pboolean
p_semaphore_release (PSemaphore *sem, PError **error)
__CPROVER_requires (HANDLE_OK (sem) && error == NULL && SEM_COUNTS_ZERO)
__CPROVER_assigns (SEM_GHOSTS, ERR_GHOSTS)
__CPROVER_ensures (__CPROVER_return_value == TRUE || __CPROVER_return_value == FALSE)
__CPROVER_ensures (__CPROVER_return_value == TRUE ==> (g_sem_posts_ok == 1 && HVAL == OLD_HVAL + 1 && g_err_calls == 0))
__CPROVER_ensures (__CPROVER_return_value == FALSE ==> (g_sem_posts_ok == 0 && HVAL == OLD_HVAL && g_err_calls == 1))
__CPROVER_ensures (g_hdl_open && ns_exists == __CPROVER_old (ns_exists) && ns_id == __CPROVER_old (ns_id) && g_sem_unlinks == 0 && g_sem_closes == 0 && g_sem_opens == 0 && g_sem_waits_ok == 0)
;
void h_acquire (void) { PSemaphore *s = mk_sem (nondet_bool ()); pboolean r = p_semaphore_acquire (s, NULL); if (r) CANARY ("unit taken"); else CANARY ("real failure"); }
void h_release (void) { PSemaphore *s = mk_sem (nondet_bool ()); pboolean r = p_semaphore_release (s, NULL); if (r) CANARY ("unit added"); else CANARY ("failure"); }

/* ------------------------------------------------------------------ take_ownership / free */
void
p_semaphore_take_ownership (PSemaphore *sem)
__CPROVER_requires (HANDLE_OK (sem))
__CPROVER_assigns (sem->sem_created)
__CPROVER_ensures (sem->sem_created == TRUE)
;
void
p_semaphore_free (PSemaphore *sem)
__CPROVER_requires (HANDLE_OK (sem) && SEM_COUNTS_ZERO && (sem->sem_created == TRUE || sem->sem_created == FALSE))
__CPROVER_assigns (SEM_GHOSTS, g_frees, sem->sem_created, sem->sem_hdl)
__CPROVER_frees (sem, sem->platform_key)
/* the native handle is closed exactly once */
__CPROVER_ensures (g_sem_closes == 1 && !g_hdl_open && g_sem_opens == 0)
/* an owner removes the name, a non-owner leaves the namespace alone */
__CPROVER_ensures (__CPROVER_old (sem->sem_created) == TRUE ==> (!ns_exists && g_sem_unlinks == 1))
__CPROVER_ensures (__CPROVER_old (sem->sem_created) == FALSE ==> (ns_exists == __CPROVER_old (ns_exists) && ns_id == __CPROVER_old (ns_id) && g_sem_unlinks == 0))
__CPROVER_ensures (HVAL == OLD_HVAL)
/* key string and object released */
__CPROVER_ensures (g_frees == __CPROVER_old (g_frees) + 2)
;
void h_take_ownership (void) { PSemaphore *s = mk_sem (nondet_bool ()); p_semaphore_take_ownership (s); CANARY ("end"); }
void h_free (void) { _Bool o = nondet_bool (); PSemaphore *s = mk_sem (o); p_semaphore_free (s); if (o) CANARY ("owner"); else CANARY ("non-owner"); }

/* ------------------------------------------------------------------ new */
#define IN_CREATE_EXISTING (existed && mode == P_SEM_ACCESS_CREATE)
static void ns_any (void)
{
	/* every namespace state: unbound, or bound to a counter with any value */
	ns_exists = nondet_bool (); ns_id = 0; ns_value = nondet_uint ();
	g_next_id = 0; g_hdl_open = 0; hdl_id = 0; g_key = NULL;
	g_sem_opens = g_sem_closes = g_sem_unlinks = g_sem_waits_ok = g_sem_posts_ok = g_sem_creates = 0; g_sem_other_error = 0;
	g_err_calls = 0; g_allocs = g_frees = 0; g_alloc_failed = 0; g_key_calls = 0; g_buf = NULL; g_env_active = 0;
}
void h_new (void)
{
	char name[1]; pint init_val; PSemaphoreAccessMode mode;
	g_str = name; g_str_len = nondet_size_t (); __CPROVER_assume (g_str_len < ((size_t) 1 << 32));
	__CPROVER_assume (mode == P_SEM_ACCESS_OPEN || mode == P_SEM_ACCESS_CREATE);
	g_sem_no_other_errors = nondet_bool ();
	ns_any ();
	_Bool existed = ns_exists; unsigned long old_id = ns_id; unsigned old_val = ns_value;
	PSemaphore *s = p_semaphore_new (name, init_val, mode, NULL);
	if (init_val < 0) { OBL (s == NULL && g_sem_opens == 0 && g_allocs == 0, "negative initial value rejected, nothing touched"); CANARY ("negative value"); return; }
	OBL (g_key_calls <= 1, "one platform key per handle");
	if (s == NULL) {
		/* failure only for a reason, and it leaves no native handle, no memory, and (unless it created it) no name behind */
		OBL (g_alloc_failed || g_sem_other_error, "p_semaphore_new fails only on allocation failure or a native error other than EINTR/EEXIST/ENOENT: OPEN and CREATE succeed whether or not the name exists");
		OBL (!g_hdl_open && g_sem_opens >= g_sem_closes, "failure: no native handle stays open");
		OBL (g_allocs == g_frees, "failure: nothing stays allocated");
		OBL (g_sem_unlinks <= (mode == P_SEM_ACCESS_CREATE ? 1u : 0u), "failure: no unlink beyond the one reset-unlink of CREATE mode");
		CANARY ("new failed");
		return;
	}
	OBL (g_allocs == g_frees + 2, "success: exactly the object and its key stay allocated");
	OBL (HANDLE_OK (s) && ns_exists && hdl_id == ns_id, "handle is bound to the counter the name now denotes");
	if (!existed) {
		OBL (g_sem_creates == 1 && ns_value == (unsigned) init_val && s->sem_created == TRUE, "missing name: created with the given initial value, creator owns it");
		CANARY ("created fresh");
	} else if (mode == P_SEM_ACCESS_OPEN) {
		OBL (ns_id == old_id && ns_value == old_val && g_sem_creates == 0 && g_sem_unlinks == 0, "OPEN on an existing name: same counter, value untouched (initial value ignored)");
		OBL (s->sem_created == FALSE, "opener is not the owner");
		CANARY ("opened existing");
	} else {
		OBL (ns_id != old_id && g_sem_creates == 1 && ns_value == (unsigned) init_val, "CREATE on an existing name: a fresh counter with exactly the given value");
		OBL (s->sem_created == TRUE, "CREATE-mode handle owns the name");
		CANARY ("re-created existing");
	}
}
/* first-open / owner-free races: other processes unlink or re-create the name between any two system calls of
 * p_semaphore_new.  Whatever happens, a counter THIS call creates holds exactly the given value and the handle owns it;
 * the handle is bound to a counter the name denoted at the moment of the successful sem_open; failure leaves nothing. */
void h_new_race (void)
{
	char name[1]; pint init_val; PSemaphoreAccessMode mode;
	g_str = name; g_str_len = nondet_size_t (); __CPROVER_assume (g_str_len < 1000);
	__CPROVER_assume (mode == P_SEM_ACCESS_OPEN || mode == P_SEM_ACCESS_CREATE);
	__CPROVER_assume (init_val >= 0);
	g_sem_no_other_errors = nondet_bool ();
	ns_any ();
	g_env_active = 1;
	PSemaphore *s = p_semaphore_new (name, init_val, mode, NULL);
	if (s == NULL) {
		OBL (!g_hdl_open && g_allocs == g_frees, "failure under interference: no native handle, nothing allocated");
		OBL (g_sem_unlinks <= (mode == P_SEM_ACCESS_CREATE ? 1u : 0u) && g_sem_creates == 0, "a failing call removes no name it did not create: at most the one reset-unlink of CREATE mode, never a counter somebody else has created since");
		CANARY ("lost the race / failed");
		return;
	}
	OBL (g_hdl_open && s->sem_hdl == &g_sem_obj && s->platform_key == g_key && g_allocs == g_frees + 2, "handle well-formed");
	if (g_sem_creates >= 1) {
		OBL (g_created_value == (unsigned) init_val, "a counter created by this call starts with exactly the given value");
		OBL (s->sem_created == TRUE, "the creating handle owns the name");
		CANARY ("created under interference");
	} else {
		OBL (s->sem_created == FALSE, "a handle that only opened is not the owner");
		CANARY ("opened under interference");
	}
}

void h_new_null (void)
{
	pint v; PSemaphoreAccessMode m; ns_any ();
	OBL (p_semaphore_new (NULL, v, m, NULL) == NULL && g_sem_opens == 0 && g_allocs == 0 && g_err_calls == 1, "NULL name: invalid argument, nothing touched");
	OBL (p_semaphore_acquire (NULL, NULL) == FALSE && p_semaphore_release (NULL, NULL) == FALSE, "NULL handle: FALSE");
	p_semaphore_free (NULL); p_semaphore_take_ownership (NULL);
	OBL (g_sem_closes == 0 && g_sem_unlinks == 0 && g_sem_waits_ok == 0 && g_sem_posts_ok == 0, "NULL handle: no native call");
	CANARY ("end");
}

/* ------------------------------------------------------------------ recovery lemma (history over the real code, EINTR at every call)
 * from EVERY namespace state: open / take ownership / free removes the name; the next new (any mode, value v)
 * yields a fresh counter holding exactly v */
void h_lemma_recovery (void)
{
	char name[1]; pint v0, v; PSemaphoreAccessMode mode;
	g_str = name; g_str_len = nondet_size_t (); __CPROVER_assume (g_str_len < 1000);
	__CPROVER_assume (mode == P_SEM_ACCESS_OPEN || mode == P_SEM_ACCESS_CREATE);
	__CPROVER_assume (v0 >= 0 && v >= 0);
	g_sem_no_other_errors = 1; g_alloc_may_fail = 0;
	ns_any ();
	unsigned long left_behind = ns_id;
	PSemaphore *s = p_semaphore_new (name, v0, P_SEM_ACCESS_OPEN, NULL);
	OBL (s != NULL, "documented clean-up step 1: OPEN succeeds from every namespace state");
	p_semaphore_take_ownership (s);
	p_semaphore_free (s);
	OBL (!ns_exists && !g_hdl_open, "clean-up: after the owner's free the name is gone");
	PSemaphore *t = p_semaphore_new (name, v, mode, NULL);
	OBL (t != NULL && ns_exists && g_hdl_open && hdl_id == ns_id && ns_id != left_behind && ns_value == (unsigned) v, "re-creation: fresh counter with exactly the newly given value");
	CANARY ("end");
}
