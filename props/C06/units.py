LEVEL = "proof"
SRC = ["psemaphore-posix.c"]
OPEN_INV = ("!g_hdl_open && ns_exists == __CPROVER_loop_entry(ns_exists) && ns_id == __CPROVER_loop_entry(ns_id) && ns_value == __CPROVER_loop_entry(ns_value) && "
            "g_sem_creates == __CPROVER_loop_entry(g_sem_creates) && g_sem_unlinks == __CPROVER_loop_entry(g_sem_unlinks) && "
            "!g_sem_other_error == !__CPROVER_loop_entry(g_sem_other_error) && g_next_id == __CPROVER_loop_entry(g_next_id) && g_sem_opens >= __CPROVER_loop_entry(g_sem_opens)")
OPEN_ASSIGNS = "__CPROVER_assigns(sem->sem_hdl, g_created_value, g_errno, g_sem_opens, ns_exists, ns_id, ns_value, g_next_id, hdl_id, hdl_value, g_hdl_open, g_sem_creates, g_sem_other_error)"
LOOPS_CREATE = {"psemaphore-posix.c": {"pp_semaphore_create_handle": {"nloops": 3,
    "0": [OPEN_ASSIGNS, "__CPROVER_loop_invariant(%s)" % OPEN_INV],
    "1": [OPEN_ASSIGNS, "__CPROVER_loop_invariant(%s)" % OPEN_INV],
    "2": [OPEN_ASSIGNS, "__CPROVER_loop_invariant(%s)" % OPEN_INV]}}}
LOOPS_ACQ = {"psemaphore-posix.c": {"p_semaphore_acquire": {"nloops": 1, "0": [
    "__CPROVER_assigns(res, g_errno, g_sem_waits_ok, g_sem_other_error, ns_value, hdl_value)",
    "__CPROVER_loop_invariant(g_sem_waits_ok == __CPROVER_loop_entry(g_sem_waits_ok) && ns_value == __CPROVER_loop_entry(ns_value) && hdl_value == __CPROVER_loop_entry(hdl_value) && !g_sem_other_error == !__CPROVER_loop_entry(g_sem_other_error))"]}}}
RACE_INV = "!g_hdl_open && g_sem_creates == __CPROVER_loop_entry(g_sem_creates) && g_created_value == __CPROVER_loop_entry(g_created_value)"
LOOPS_RACE = {"psemaphore-posix.c": {"pp_semaphore_create_handle": {"nloops": 3,
    "0": [OPEN_ASSIGNS, "__CPROVER_loop_invariant(%s)" % RACE_INV],
    "1": [OPEN_ASSIGNS, "__CPROVER_loop_invariant(%s)" % RACE_INV],
    "2": [OPEN_ASSIGNS, "__CPROVER_loop_invariant(%s)" % RACE_INV]}}}
def U(id, entry, enforce=None, **kw):
    d = dict(id=id, harness="sem.c", entry=entry, sources=SRC, enforce=enforce, replace=[], timeout=600)
    d.update(kw); return d
UNITS = [
    U("acquire", "h_acquire", "p_semaphore_acquire", canaries=2, loops=LOOPS_ACQ),
    U("release", "h_release", "p_semaphore_release", canaries=2),
    U("take_ownership", "h_take_ownership", "p_semaphore_take_ownership"),
    U("free", "h_free", "p_semaphore_free", canaries=2),
    U("new", "h_new", None, canaries=5, loops=LOOPS_CREATE, replay={"driver": "C06_replay.c", "mode": "new", "args": ["existed", "mode", "init_val"]}, functions=["p_semaphore_new", "pp_semaphore_create_handle", "pp_semaphore_clean_handle"]),
    U("new_race", "h_new_race", None, canaries=3, loops=LOOPS_RACE, functions=[], cbmc_flags=["--object-bits", "10"]),
    U("platform_key", "h_platform_key", None, harness="key.c", sources=["pipc.c", "psysclose-unix.c"], canaries=2, functions=["p_ipc_get_platform_key"],
      cbmc_flags=["--unwind", "45", "--unwinding-assertions"], bound="string loops unwound to the fixed sizes of this function (13-digit key prefix, 40-digit hex string): complete, unwinding assertions on"),
    U("platform_key_null", "h_platform_key_null", None, harness="key.c", sources=["pipc.c", "psysclose-unix.c"], functions=[]),
    U("new_null", "h_new_null", None, functions=[]),
    U("lemma_recovery", "h_lemma_recovery", None, loops=LOOPS_CREATE, functions=[], cbmc_flags=["--object-bits", "10"]),
]
REQUIRE_CONFIGURED = ["psemaphore-posix.c"]
TECHNIQUE = "CBMC contracts (DFCC) and loop contracts on the real psemaphore-posix.c against a ghost model of the POSIX named-semaphore namespace, quantified over every namespace state (superset of all crash states) and every EINTR count"
LEVEL_TEXT = ("acquire/release/take_ownership/free under function contracts; p_semaphore_new and the recovery history as obligations over the real code: for EVERY state of the name "
              "(unbound, or bound to a counter with any value) and any number of EINTR results at every sem_open/sem_wait (loop contracts): OPEN binds to the existing counter and leaves "
              "its value alone, a missing name is created with the given value, CREATE on an existing name yields a fresh counter with exactly the given value, new fails only on "
              "allocation failure or a genuine native error and then leaves nothing behind; acquire returns TRUE only by consuming exactly one unit and never reports EINTR; "
              "owner free unlinks, non-owner free leaves the namespace alone, the native handle is closed exactly once; recovery lemma: open/take ownership/free/new from every "
              "namespace state gives a fresh counter with the new value. Only the handle's own key is ever passed to sem_* (other names unaffected).")
LEVEL_NOTE = ("Trusted: the ghost kernel model in env/posix_sem.c (written from POSIX), abstract string functions, p_ipc_get_platform_key as a deterministic collision-free key "
              "(SHA-1 injectivity assumed), allocator model. Cross-process/thread sharing of one counter and non-blocking of acquire while units are available are the kernel's "
              "semaphore semantics (the model lets sem_wait return 0 only by decrementing a positive counter). Processes that unlink or re-create the name between two sem_* calls "
              "of one p_semaphore_new are covered by unit new_race (environment step between the calls: a counter this call creates holds the given value, the handle is bound to a counter the name "
              "denoted at the successful sem_open, failure leaves nothing); nothing else about concurrent callers is decided.")
