/* C07 -- the real pshm-posix.c AND the real psemaphore-posix.c (its lock) against ghost models of the POSIX shm and
 * semaphore namespaces.  Pre-states range over EVERY (segment, semaphore) namespace state -- including the states a
 * SIGKILL can leave: segment of size 0 (killed between shm_open and ftruncate), segment without semaphore,
 * semaphore without segment, semaphore with any value. */
/* TRUSTED: p_ipc_get_platform_key (abstract) -- NULL or a fresh 14-character key string, deterministic and collision-free in the name (construction verified in C06 unit platform_key); first call = segment key, second call = key of the lock semaphore derived from the segment key */
#include "env/verif.h"
#include "env/alloc.c"
#include "env/perror_stub.c"
#include "env/str_abs.c"
#include "env/posix_sem.c"
#include "env/posix_shm.c"
#define sem_open verif_sem_open
#include "pipc-private.h"

unsigned long g_key_calls; const char *g_sem_key_source;
pchar *p_ipc_get_platform_key (const pchar *name, pboolean posix)
{
	ENV_REQ (name != NULL && name == g_buf && posix == TRUE, "platform key is derived from the assembled <name><suffix> string, POSIX style");
	g_key_calls++;
	if (g_alloc_may_fail && nondet_bool ()) { g_alloc_failed = 1; return NULL; }
	char *k = malloc (15);
	__CPROVER_assume (k != NULL);
	for (int i = 0; i < 14; i++) __CPROVER_assume (k[i] != 0);
	k[14] = 0;
	g_allocs++;
	if (g_key_calls == 1) { g_shm_key = k; ENV_REQ (g_buf_len == g_str_len + 13, "segment key from <name>_p_shm_object"); }
	else { g_key = k; ENV_REQ (g_buf_len == 14 + 13, "semaphore key from <segment key>_p_sem_object: one lock per segment name"); }
	return k;
}
#include "psysclose-unix.c"
#include "psemaphore-posix.c"
#include "pshm-posix.c"

static void any_state (void)
{
	shm_exists = nondet_bool (); shm_id = 0; shm_size = nondet_size_t (); g_shm_next_id = 0; g_orphan_size = 0;
	g_fd_live = 0; g_map_live = 0; g_shm_key = NULL;
	g_shm_opens = g_shm_creates = g_fd_closes = g_truncs = g_fstats = g_maps = g_unmaps = g_shm_unlinks = 0; g_shm_other_error = 0;
	ns_exists = nondet_bool (); ns_id = 0; ns_value = nondet_uint (); g_next_id = 0; g_hdl_open = 0; hdl_id = 0; g_key = NULL; g_env_active = 0;
#ifdef VERIF_PEER_OPENER
	g_peer_opener = 0; g_peer_holds = 0; g_peer_id = 0;
#endif

	g_sem_opens = g_sem_closes = g_sem_unlinks = g_sem_waits_ok = g_sem_posts_ok = g_sem_creates = 0; g_sem_other_error = 0;
	g_err_calls = 0; g_allocs = g_frees = 0; g_alloc_failed = 0; g_key_calls = 0; g_buf = NULL;
	_Bool faults = nondet_bool (); g_shm_no_other_errors = !faults; g_sem_no_other_errors = !faults;
}
#define MAXSZ ((psize) 1 << 62)
/* known finding C07_ZERO_SIZE_LEFTOVER: an existing segment of size 0 */
#define IN_ZERO_REGION (existed && old_size == 0)

void h_new (void)
{
	char name[1]; psize size; PShmAccessPerms perms;
	g_str = name; g_str_len = nondet_size_t (); __CPROVER_assume (g_str_len < ((size_t) 1 << 32));
	__CPROVER_assume (size <= MAXSZ);
	__CPROVER_assume (perms == P_SHM_ACCESS_READONLY || perms == P_SHM_ACCESS_READWRITE);
	any_state ();
	__CPROVER_assume (shm_size <= MAXSZ);
	_Bool existed = shm_exists; psize old_size = shm_size; _Bool sem_existed = ns_exists; unsigned long old_sem = ns_id; unsigned old_sem_val = ns_value;
#ifdef KF_EXCLUDE_C07_ZERO_SIZE_LEFTOVER
	__CPROVER_assume (!IN_ZERO_REGION);
#endif
#ifdef KF_ONLY_C07_ZERO_SIZE_LEFTOVER
	__CPROVER_assume (IN_ZERO_REGION);
#endif
	PShm *s = p_shm_new (name, size, perms, NULL);
	OBL (!g_fd_live && g_shm_opens >= g_fd_closes, "the descriptor is closed again on every exit, exactly once per successful open");
	if (s == NULL) {
		OBL (g_alloc_failed || g_shm_other_error || g_sem_other_error || (!existed && size == 0),
		     "p_shm_new fails only on allocation failure, a genuine native error, or size 0 for a missing segment (so a leftover can always be opened for clean-up)");
		OBL (!g_map_live && !g_hdl_open && g_allocs == g_frees, "failure: no mapping, no semaphore handle, no memory left");
		OBL (existed ? (shm_exists && shm_id == 0 && shm_size == old_size) : !shm_exists, "failure: a pre-existing segment is untouched, a segment created by this call is removed again");
		CANARY ("new failed");
		return;
	}
	OBL (g_allocs == g_frees + 4, "success: exactly handle, key, semaphore handle and its key stay allocated");
	OBL (g_map_live && s->addr == (ppointer) &g_map_obj && g_maps == 1 && g_map_id == shm_id && shm_exists, "one shared mapping of the object the name denotes: same name = same bytes");
	OBL (s->size <= g_map_len && s->size <= shm_size, "every byte below p_shm_get_size is mapped and backed by the object");
	OBL (s->map_size == g_map_len, "the handle records the length that was mapped (the representation invariant p_shm_free relies on to remove the whole mapping)");
	OBL (g_map_prot == (perms == P_SHM_ACCESS_READONLY ? PROT_READ : (PROT_READ | PROT_WRITE)), "protection as requested");
	OBL (p_shm_get_size (s) == s->size && p_shm_get_address (s) == s->addr, "getters");
	/* the lock is THE semaphore of this segment name */
	OBL (s->sem != NULL && g_hdl_open && ns_exists && hdl_id == ns_id && g_key_calls == 2, "lock handle bound to the one semaphore named after the segment key");
	if (!existed) {
		OBL (s->size == size && shm_size == size && g_truncs == 1 && g_trunc_len == size && s->shm_created == TRUE, "creator: segment sized once to exactly the requested size, which is what it reports");
		OBL (ns_value == 1 && (!sem_existed || ns_id != old_sem) && s->sem->sem_created == TRUE, "creator: fresh lock semaphore with one unit (a stale one left by a crash is replaced)");
		CANARY ("created");
	} else {
		OBL (g_truncs == 0 && shm_size == old_size && shm_id == 0, "opener never resizes or replaces the segment");
		OBL (s->size == ((size != 0 && old_size > size) ? size : old_size), "opener: reported size is a function of (requested, segment size) only: same argument => same size");
		OBL (s->shm_created == FALSE, "opener is not the owner");
		OBL (sem_existed ? (ns_id == old_sem && ns_value == old_sem_val && s->sem->sem_created == FALSE) : (ns_value == 1), "opener: existing lock untouched; missing lock created with one unit");
		CANARY ("opened existing");
	}
}

/* a well-formed open handle, any ownership */
static PShm *mk_shm (void)
{
	PShm *s = malloc (sizeof (PShm)); PSemaphore *m = malloc (sizeof (PSemaphore));
	char *k = malloc (15), *k2 = malloc (15);
	__CPROVER_assume (s != NULL && m != NULL && k != NULL && k2 != NULL);
	any_state ();
	g_shm_key = k; g_key = k2; g_allocs = 4; g_alloc_may_fail = 0;
	s->platform_key = k; s->shm_created = nondet_bool () ? TRUE : FALSE; s->addr = &g_map_obj; s->sem = m; s->perms = P_SHM_ACCESS_READWRITE;
	g_map_live = 1; g_map_len = nondet_size_t (); g_map_id = nondet_ulong (); s->size = nondet_size_t ();
	__CPROVER_assume (s->size <= g_map_len && g_map_len > 0);
	s->map_size = g_map_len;
	m->platform_key = k2; m->sem_created = nondet_bool () ? TRUE : FALSE; m->sem_hdl = &g_sem_obj; m->mode = P_SEM_ACCESS_OPEN; m->init_val = 1;
	g_hdl_open = 1; hdl_id = nondet_ulong (); hdl_value = nondet_uint (); ns_id = nondet_ulong ();
	return s;
}
void h_free (void)
{
	PShm *s = mk_shm ();
	_Bool owner = s->shm_created == TRUE, sem_owner = s->sem->sem_created == TRUE;
	_Bool e0 = shm_exists; unsigned long id0 = shm_id; psize sz0 = shm_size; _Bool se0 = ns_exists; unsigned long sid0 = ns_id;
	p_shm_free (s);
	OBL (!g_map_live && g_unmaps == 1, "free: the mapping is removed, whole, exactly once");
	OBL (!g_hdl_open && g_sem_closes == 1, "free: the lock handle is closed exactly once");
	OBL (g_frees == 4 && !g_fd_live && g_shm_opens == 0, "free: all memory released, no descriptor involved");
	if (owner) { OBL (!shm_exists && g_shm_unlinks == 1, "owner free: the segment name is gone"); CANARY ("owner"); }
	else { OBL (shm_exists == e0 && shm_id == id0 && shm_size == sz0 && g_shm_unlinks == 0, "non-owner free: segment namespace untouched"); CANARY ("non-owner"); }
	OBL (sem_owner ? !ns_exists : (ns_exists == se0 && ns_id == sid0), "lock semaphore name: removed by its owner only");
}
void h_take_ownership_free (void)
{
	PShm *s = mk_shm ();
	p_shm_take_ownership (s);
	OBL (s->shm_created == TRUE && s->sem->sem_created == TRUE, "take_ownership covers the segment and its lock");
	p_shm_free (s);
	OBL (!shm_exists && !ns_exists && !g_map_live && !g_hdl_open && g_frees == 4, "owner free: segment name and lock name gone, nothing held");
	CANARY ("end");
}
void h_lock_unlock (void)
{
	PShm *s = mk_shm ();
	__CPROVER_assume (HVAL < 0x7fffffff);
	unsigned v0 = HVAL;
	pboolean l = p_shm_lock (s, NULL);
	OBL (l == TRUE ? (g_sem_waits_ok == 1 && HVAL == v0 - 1 && v0 > 0) : (g_sem_waits_ok == 0 && HVAL == v0), "lock = exactly one unit taken from the segment's semaphore, or failure");
	if (l == TRUE) {
		pboolean u = p_shm_unlock (s, NULL);
		OBL (u == TRUE ? (g_sem_posts_ok == 1 && HVAL == v0) : (g_sem_posts_ok == 0), "unlock = exactly one unit returned to the same semaphore");
		CANARY ("locked and unlocked");
	} else CANARY ("lock failed");
	OBL (g_shm_opens == 0 && g_maps == 0 && g_unmaps == 0 && g_sem_opens == 0 && g_sem_closes == 0, "lock/unlock touch nothing but the semaphore counter");
}
void h_null (void)
{
	psize size; PShmAccessPerms p; any_state ();
	OBL (p_shm_new (NULL, size, p, NULL) == NULL && g_shm_opens == 0 && g_allocs == 0, "NULL name: nothing touched");
	OBL (p_shm_lock (NULL, NULL) == FALSE && p_shm_unlock (NULL, NULL) == FALSE && p_shm_get_address (NULL) == NULL && p_shm_get_size (NULL) == 0, "NULL handle");
	p_shm_free (NULL); p_shm_take_ownership (NULL);
	OBL (g_unmaps == 0 && g_shm_unlinks == 0 && g_sem_closes == 0, "NULL handle: no native call");
	CANARY ("end");
}
/* recovery: from every crash state the documented clean-up removes both names, and the next p_shm_new yields a
 * fresh segment of the newly requested size with a fresh lock */
void h_lemma_recovery (void)
{
	char name[1]; psize size2; PShmAccessPerms perms = P_SHM_ACCESS_READWRITE;
	g_str = name; g_str_len = nondet_size_t (); __CPROVER_assume (g_str_len < 1000);
	__CPROVER_assume (size2 >= 1 && size2 <= MAXSZ);
	any_state ();
	g_shm_no_other_errors = 1; g_sem_no_other_errors = 1; g_alloc_may_fail = 0;
	__CPROVER_assume (shm_size <= MAXSZ);
	_Bool existed = shm_exists; psize old_size = shm_size;
#ifdef KF_EXCLUDE_C07_ZERO_SIZE_LEFTOVER
	__CPROVER_assume (!IN_ZERO_REGION);
#endif
#ifdef KF_ONLY_C07_ZERO_SIZE_LEFTOVER
	__CPROVER_assume (IN_ZERO_REGION);
#endif
	__CPROVER_assume (existed);   /* something was left behind */
	PShm *s = p_shm_new (name, 0, perms, NULL);
	OBL (s != NULL, "clean-up step 1: the leftover can be opened");
	if (s == NULL) return;
	p_shm_take_ownership (s);
	p_shm_free (s);
	OBL (!shm_exists && !ns_exists && !g_map_live && !g_fd_live && !g_hdl_open, "clean-up: both names gone, nothing held");
	g_key_calls = 0; g_buf = NULL;
	PShm *t = p_shm_new (name, size2, perms, NULL);
	OBL (t != NULL && t->size == size2 && shm_exists && shm_id != 0 && shm_size == size2 && ns_exists && ns_value == 1, "next p_shm_new: fresh segment of the newly requested size, fresh lock with one unit");
	CANARY ("end");
}

#ifdef VERIF_PEER_OPENER
/* ---- first-open race: this process creates the segment; a second process opens the same name as soon as the segment
 * exists and opens (creating it if missing) the lock semaphore at ANY point between this process's semaphore system calls.
 * "p_shm_lock/p_shm_unlock behave as one system-wide mutex per name, also when several processes open the name for the
 * first time concurrently": both handles must end up on the same counter. */
void h_new_first_open_race (void)
{
	char name[1]; psize size; PShmAccessPerms perms;
	g_str = name; g_str_len = nondet_size_t (); __CPROVER_assume (g_str_len < ((size_t) 1 << 32));
	__CPROVER_assume (size > 0 && size <= MAXSZ);
	__CPROVER_assume (perms == P_SHM_ACCESS_READONLY || perms == P_SHM_ACCESS_READWRITE);
	any_state ();
	__CPROVER_assume (!shm_exists);            /* this process is the creator */
	g_alloc_may_fail = 0; g_shm_no_other_errors = 1; g_sem_no_other_errors = 1;   /* no faults: the race alone */
#ifdef KF_EXCLUDE_C07_FIRST_OPEN_LOCK_SPLIT
	g_peer_opener = 0;                          /* nobody else around: the creator alone */
#else
	g_peer_opener = 1;
#endif
	PShm *s = p_shm_new (name, size, perms, NULL);
	OBL (s != NULL, "without faults the creator succeeds, whatever the peer does");
	if (s == NULL) return;
	OBL (g_hdl_open && ns_exists && hdl_id == ns_id, "the creator's lock handle is bound to the counter the lock name denotes");
#ifdef KF_ONLY_C07_FIRST_OPEN_LOCK_SPLIT
	__CPROVER_assume (g_peer_holds);
#endif
	OBL (!g_peer_holds || g_peer_id == hdl_id, "first-open race: every handle of the name is bound to the same lock counter (one system-wide mutex per name)");
#ifndef KF_EXCLUDE_C07_FIRST_OPEN_LOCK_SPLIT
	if (g_peer_holds) CANARY ("a peer opened the lock during the call");
#endif
	if (!g_peer_holds) CANARY ("creator alone");
}
#endif
