import os, sys, importlib.util
_p = os.path.join(os.path.dirname(os.path.abspath(__file__)), "..", "C06", "units.py")
_s = importlib.util.spec_from_file_location("c06units", _p); c06 = importlib.util.module_from_spec(_s); _s.loader.exec_module(c06)
LEVEL = "proof"
SRC = ["pshm-posix.c", "psemaphore-posix.c", "psysclose-unix.c"]
SHM_INV = ("!g_fd_live && !g_map_live && shm_exists == __CPROVER_loop_entry(shm_exists) && shm_id == __CPROVER_loop_entry(shm_id) && shm_size == __CPROVER_loop_entry(shm_size) && "
           "g_shm_creates == __CPROVER_loop_entry(g_shm_creates) && !g_shm_other_error == !__CPROVER_loop_entry(g_shm_other_error) && "
           "g_shm_next_id == __CPROVER_loop_entry(g_shm_next_id) && g_fd_closes == __CPROVER_loop_entry(g_fd_closes) && g_shm_opens >= __CPROVER_loop_entry(g_shm_opens)")
SHM_ASSIGNS = "__CPROVER_assigns(fd, g_errno, g_shm_opens, shm_exists, shm_id, shm_size, g_shm_next_id, g_shm_creates, g_fd, g_fd_live, g_fd_id, g_shm_other_error)"
LOOPS = {"pshm-posix.c": {"pp_shm_create_handle": {"nloops": 2,
            "0": [SHM_ASSIGNS, "__CPROVER_loop_invariant(%s)" % SHM_INV], "1": [SHM_ASSIGNS, "__CPROVER_loop_invariant(%s)" % SHM_INV]}},
         "psemaphore-posix.c": dict(c06.LOOPS_CREATE["psemaphore-posix.c"], **c06.LOOPS_ACQ["psemaphore-posix.c"])}
PEER_ASSIGNS = c06.OPEN_ASSIGNS[:-1] + ", g_peer_holds, g_peer_id)"
# with a peer the namespace may change at every sem_* call (weak invariant); without one it is the sequential invariant
PEER_INV = "%s && (g_peer_opener || ((%s) && !g_peer_holds))" % (c06.RACE_INV, c06.OPEN_INV)
LOOPS_PEER = {"pshm-posix.c": LOOPS["pshm-posix.c"],
              "psemaphore-posix.c": {"pp_semaphore_create_handle": {"nloops": 3,
                  "0": [PEER_ASSIGNS, "__CPROVER_loop_invariant(%s)" % PEER_INV], "1": [PEER_ASSIGNS, "__CPROVER_loop_invariant(%s)" % PEER_INV], "2": [PEER_ASSIGNS, "__CPROVER_loop_invariant(%s)" % PEER_INV]},
                                     "p_semaphore_acquire": c06.LOOPS_ACQ["psemaphore-posix.c"]["p_semaphore_acquire"]}}
def U(id, entry, **kw):
    d = dict(id=id, harness="shm.c", entry=entry, sources=SRC, enforce=None, replace=[], timeout=900, loops=LOOPS, cbmc_flags=["--object-bits", "10"])
    d.update(kw); return d
FN = ["p_shm_new", "pp_shm_create_handle", "pp_shm_clean_handle", "p_shm_free", "p_shm_take_ownership", "p_shm_lock", "p_shm_unlock", "p_shm_get_address", "p_shm_get_size",
      "p_semaphore_new", "p_semaphore_free", "p_semaphore_acquire", "p_semaphore_release"]
UNITS = [
    U("new", "h_new", canaries=3, functions=FN, replay=[{"driver": "C07_replay.c", "mode": "zero_size", "args": [], "kf_region": True, "only_for": ["p_shm_new fails only on allocation failure", "clean-up step 1"]},
                                                        {"driver": "C07_replay.c", "mode": "free_maplen", "args": [], "only_for": ["records the length that was mapped"]}]),
    U("new_first_open_race", "h_new_first_open_race", canaries=1, functions=[], loops=LOOPS_PEER, defines=["VERIF_PEER_OPENER"], replay={"driver": "C07_replay.c", "mode": "first_open_race", "args": [], "timeout": 60, "kf_region": True, "only_for": ["first-open race: every handle", "without faults the creator succeeds"]}),
    U("free", "h_free", canaries=2, functions=[], loops={}, replay={"driver": "C07_replay.c", "mode": "free_maplen", "args": []}),
    U("take_ownership_free", "h_take_ownership_free", functions=[], loops={}),
    U("lock_unlock", "h_lock_unlock", canaries=2, functions=[]),
    U("null", "h_null", functions=[]),
    U("lemma_recovery", "h_lemma_recovery", functions=[], replay={"driver": "C07_replay.c", "mode": "zero_size", "args": [], "kf_region": True, "only_for": ["p_shm_new fails only on allocation failure", "clean-up step 1"]}),
]
# p_shm_lock / p_shm_unlock ARE p_semaphore_acquire / p_semaphore_release on the segment's lock: their contracts (a unit is
# consumed exactly once, EINTR never surfaces, one post per release) are part of "one system-wide mutex per name"
UNITS += [dict(u, id="sem_" + u["id"], harness="../C06/" + u["harness"]) for u in c06.UNITS if u["id"] in ("acquire", "release")]
REQUIRE_CONFIGURED = ["pshm-posix.c", "psemaphore-posix.c"]
TECHNIQUE = "CBMC obligations and loop contracts over the real pshm-posix.c together with the real psemaphore-posix.c, against ghost models of the POSIX shm and semaphore namespaces, quantified over every namespace state (superset of all crash states) and every EINTR count"
LEVEL_TEXT = ("p_shm_new/free/take_ownership/lock/unlock/getters as obligations on the real code for EVERY state of the segment name (absent / any size incl. 0) and of its lock semaphore "
              "(absent / any value) and any number of EINTR results at every shm_open/sem_open/sem_wait (injected loop contracts): creator sizes the segment once to the requested size and "
              "reports it; opener never resizes, reports a size that is a function of (argument, segment size) only; reported size <= mapped length and <= object size; the mapping is of "
              "the object the name denotes; the lock handle is bound to the semaphore named after the segment key (creator resets it to one unit); the descriptor is closed once on every "
              "exit; failure releases everything; owner free removes both names and the exact mapping, non-owner free leaves the namespace alone; recovery lemma from every crash state.")
LEVEL_NOTE = ("Trusted: ghost kernel models env/posix_shm.c and env/posix_sem.c (MAP_SHARED coherence, semaphore blocking), key derivation as a collision-free function, allocator and string "
              "models, close() succeeding. Concurrent first open by a creator and an opener is decided in unit new_first_open_race (environment step: the opener's 'open the lock, create it if missing' between the creator's semaphore calls): it FAILS on the real code -- known finding C07_FIRST_OPEN_LOCK_SPLIT, reproduced natively with a forced interleaving. Other concurrent schedules (two openers, lockers) rest on the kernel's semaphore and are not enumerated. Known findings: zero-size leftover segment, first-open lock split.")
