/* C08 -- p_shm_buffer_new / free / take_ownership over the C07-level contract of PShm.
 * The PShm functions here are the ghost model whose clauses are what C07 proves of
 * the real pshm-posix.c (size rule of p_shm_new, one free per handle). */
/* TRUSTED: p_shm_new (C07 contract) -- may fail (NULL, error set); if the segment exists its reported size is (req != 0 && st_size > req) ? req : st_size, else the segment is created with size req (req == 0 cannot be created); p_shm_free/p_shm_take_ownership are counted */
#include "env/verif.h"
#include "env/alloc.c"
#include "env/perror_stub.c"
#include "pshm.h"

struct PShm_ { char *addr; psize size; };

_Bool    g_seg_exists;      /* a segment of this name already exists ... */
psize    g_seg_size;        /* ... with this true size (st_size) */
psize    g_shm_req_size;    /* size argument p_shm_buffer_new passed down */
const pchar *g_shm_req_name;
unsigned g_shm_new_calls, g_shm_free_calls, g_shm_own_calls;
PShm    *g_shm_obj;         /* the live PShm handle created by the model */
_Bool    g_shm_new_failed;

PShm *p_shm_new (const pchar *name, psize size, PShmAccessPerms perms, PError **error)
{
	g_shm_new_calls++; g_shm_req_size = size; g_shm_req_name = name;
	ENV_REQ (perms == P_SHM_ACCESS_READWRITE, "p_shm_new: read/write mapping");
	if (nondet_bool () || (!g_seg_exists && size == 0)) { g_shm_new_failed = 1; return NULL; }
	PShm *s = malloc (sizeof (PShm));
	__CPROVER_assume (s != NULL);
	if (!g_seg_exists) { g_seg_exists = 1; g_seg_size = size; s->size = size; }
	else s->size = (size != 0 && g_seg_size > size) ? size : g_seg_size;
	s->addr = NULL;
	g_shm_obj = s;
	return s;
}
void p_shm_free (PShm *shm)
{
	ENV_REQ (shm != NULL && shm == g_shm_obj, "p_shm_free: the handle obtained from p_shm_new, once");
	g_shm_free_calls++; g_shm_obj = NULL; free (shm);
}
void p_shm_take_ownership (PShm *shm) { ENV_REQ (shm != NULL && shm == g_shm_obj, "p_shm_take_ownership: the buffer's segment"); g_shm_own_calls++; }
psize p_shm_get_size (const PShm *shm) { return shm == NULL ? 0 : shm->size; }
ppointer p_shm_get_address (const PShm *shm) { return shm == NULL ? NULL : shm->addr; }
pboolean p_shm_lock (PShm *shm, PError **error) { return nondet_bool (); }
pboolean p_shm_unlock (PShm *shm, PError **error) { return nondet_bool (); }

#include "pshmbuffer.c"

/* known finding C08_OPEN_SMALLER_SIZE: region = existing segment opened with a smaller non-zero size */
#define IN_REGION (existed && size != 0 && size + 17 < seg_size0)

void h_new (void)
{
	char name[4]; psize size; PError **error = NULL;
	g_shm_new_calls = g_shm_free_calls = g_shm_own_calls = 0; g_shm_obj = NULL; g_shm_new_failed = 0; g_alloc_failed = 0; g_err_calls = 0;
	g_seg_exists = nondet_bool (); g_seg_size = nondet_size_t ();
	_Bool existed = g_seg_exists; psize seg_size0 = g_seg_size;
	/* an existing segment is usually one made by p_shm_buffer_new(S) (S + 17 bytes, S >= 1), but it may be ANY segment of
	 * that name, also one too small to hold the header and one byte: that open must fail cleanly */
	__CPROVER_assume (!existed || seg_size0 <= ((psize) 1 << 62));
	__CPROVER_assume (size <= ((psize) 1 << 62));
#ifdef KF_EXCLUDE_C08_OPEN_SMALLER_SIZE
	__CPROVER_assume (!IN_REGION);
#endif
#ifdef KF_ONLY_C08_OPEN_SMALLER_SIZE
	__CPROVER_assume (IN_REGION);
#endif
	PShmBuffer *b = p_shm_buffer_new (name, size, error);
	OBL (g_shm_new_calls == 1 && g_shm_req_name == name, "exactly one segment open, under the caller's name");
	OBL (g_shm_req_size == (size == 0 ? 0 : size + 17), "segment size requested = S + header + 1 (0 = open existing)");
	if (b == NULL) {
		OBL (g_shm_obj == NULL && g_shm_free_calls == (g_shm_new_failed ? 0 : 1), "failure: segment handle released (exactly once), nothing kept");
		OBL (g_shm_new_failed || g_alloc_failed || (!existed && size == 0) || (existed && seg_size0 <= 17), "fails only for a reason (incl. an existing segment too small for the header and one byte)");
		if (existed && seg_size0 <= 17 && !g_shm_new_failed) CANARY ("segment too small");
		OBL (g_shm_own_calls == 0, "a failed open never takes ownership: the names of an existing buffer and its lock survive the failure of one more handle");
		CANARY ("new failed");
	} else {
		OBL (g_shm_obj != NULL && b->shm == g_shm_obj && g_shm_free_calls == 0, "handle owns the segment handle");
		/* the handle's ring modulus is the SEGMENT's (every handle of the name computes positions with the same modulus) */
		OBL (g_seg_size >= 18, "success only on a segment that can hold the header and at least one byte");
		OBL (b->size == g_seg_size - 16, "handle modulus = segment size - header: opening an existing buffer ignores the size argument");
		if (!existed) { OBL (b->size == size + 1, "creator: capacity exactly S"); CANARY ("created"); }
		else CANARY ("opened existing");
		p_shm_buffer_take_ownership (b);
		OBL (g_shm_own_calls == 1, "take_ownership forwards to the segment");
		p_shm_buffer_free (b);
		OBL (g_shm_free_calls == 1 && g_shm_obj == NULL, "free releases the segment handle exactly once");
	}
	p_shm_buffer_free (NULL); p_shm_buffer_take_ownership (NULL);
	OBL (g_shm_free_calls == (g_shm_new_failed ? 0 : 1), "NULL handle: no effect");
}

void h_new_null (void)
{
	psize size; g_shm_new_calls = 0; g_err_calls = 0;
	OBL (p_shm_buffer_new (NULL, size, NULL) == NULL && g_shm_new_calls == 0 && g_err_calls == 1, "NULL name: invalid argument, no segment touched");
	CANARY ("end");
}
