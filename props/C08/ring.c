/* C08 -- contracts on the real functions of pshmbuffer.c. */
#include "env/verif.h"
#include "env/alloc.c"
#include "env/perror_stub.c"
#include "shm_model.c"

/* C07-level functions used only by new/free/take_ownership (contracts in c08_new.c) */
#include "pshmbuffer.c"

#ifndef MAXM_BITS
#define MAXM_BITS 40
#endif
#define MAXM ((psize) 1 << MAXM_BITS)
/* spec, written from the property: a ring of modulus M holds (wp - rp) mod M bytes,
 * capacity M - 1; case form, no '%' */
#define USED(rp, wp, M)  ((wp) >= (rp) ? (wp) - (rp) : (M) - ((rp) - (wp)))
#define FREE(rp, wp, M)  ((M) - 1 - USED (rp, wp, M))
#define ADDMOD(a, n, M)  ((a) + (n) >= (M) ? (a) + (n) - (M) : (a) + (n))   /* a < M, n < M */

#define GHOSTS __CPROVER_object_whole (g_cpy), g_ncpy, g_mon_held, g_nset, g_set_dst, g_set_n, g_set_c, g_set_held, \
	g_lock_calls, g_unlock_calls, g_lock_failed, g_unlock_failed, L_rp, L_wp, U_rp, U_wp, g_err_code, g_err_native, g_err_calls
#define GHOSTS_INIT_RW (g_ncpy == 0 && g_nset == 0 && !g_mon_held && g_lock_calls == 0 && g_unlock_calls == 0 && \
	!g_lock_failed && !g_unlock_failed && g_err_calls == 0)
#define GHOSTS_INIT (g_user_base == NULL && g_ncpy == 0 && g_nset == 0 && !g_mon_held && g_lock_calls == 0 && g_unlock_calls == 0 && \
	!g_lock_failed && !g_unlock_failed && g_err_calls == 0)

/* a well-formed handle on a segment whose true modulus is g_M */
#define WF_HANDLE(buf) (__CPROVER_is_fresh (buf, sizeof (PShmBuffer)) && __CPROVER_is_fresh (buf->shm, sizeof (PShm)) && \
	g_shm == buf->shm && 2 <= g_M && g_M <= MAXM && buf->shm->size == g_M + 16 && \
	__CPROVER_is_fresh (buf->shm->addr, 16) && g_seg_base == buf->shm->addr && g_seg_len == g_M + 16 && buf->size == g_M)
/* the caller's buffer: logical length len */
#define USER_BUF(p, len) (__CPROVER_is_fresh (p, 1) && g_user_base == (const char *) (p) && g_user_len == (len))

#define DOFF(i) ((psize) __CPROVER_POINTER_OFFSET (g_cpy[i].dst))
#define SOFF(i) ((psize) __CPROVER_POINTER_OFFSET (g_cpy[i].src))
#define CPY_WR(i, data, seg) (g_cpy[i].held && __CPROVER_same_object (g_cpy[i].src, data) && __CPROVER_same_object (g_cpy[i].dst, seg))
#define CPY_RD(i, sto, seg)  (g_cpy[i].held && __CPROVER_same_object (g_cpy[i].dst, sto) && __CPROVER_same_object (g_cpy[i].src, seg))
/* data[k] lands at segment offset 16 + pos through copy i */
#define W_PLACED(i, k, pos)  (g_ncpy > (i) && SOFF (i) <= (k) && (k) - SOFF (i) < g_cpy[i].n && DOFF (i) + ((k) - SOFF (i)) == 16 + (pos))
/* storage[k] is filled from segment offset 16 + pos through copy i */
#define R_PLACED(i, k, pos)  (g_ncpy > (i) && DOFF (i) <= (k) && (k) - DOFF (i) < g_cpy[i].n && SOFF (i) + ((k) - DOFF (i)) == 16 + (pos))
#define DST_HITS(i, off)     (g_ncpy > (i) && DOFF (i) <= (off) && (off) - DOFF (i) < g_cpy[i].n)
#define DISJOINT_DST         (g_ncpy < 2 || DOFF (0) + g_cpy[0].n <= DOFF (1) || DOFF (1) + g_cpy[1].n <= DOFF (0))

psize g_k, g_j;   /* ghost indices: arbitrary (DFCC havocs statics) => each postcondition over them is a forall */

/* ------------------------------------------------------------------ space arithmetic (all capacities) */
static psize
pp_shm_buffer_get_free_space (const PShmBuffer *buf)
__CPROVER_requires (WF_HANDLE (buf) && g_user_base == NULL)
__CPROVER_requires (((psize *) buf->shm->addr)[0] < g_M && ((psize *) buf->shm->addr)[1] < g_M)
__CPROVER_assigns ()
__CPROVER_ensures (__CPROVER_return_value == FREE (((psize *) buf->shm->addr)[0], ((psize *) buf->shm->addr)[1], g_M))
__CPROVER_ensures (__CPROVER_return_value <= g_M - 1)
;

static psize
pp_shm_buffer_get_used_space (const PShmBuffer *buf)
__CPROVER_requires (WF_HANDLE (buf) && g_user_base == NULL)
__CPROVER_requires (((psize *) buf->shm->addr)[0] < g_M && ((psize *) buf->shm->addr)[1] < g_M)
__CPROVER_assigns ()
__CPROVER_ensures (__CPROVER_return_value == USED (((psize *) buf->shm->addr)[0], ((psize *) buf->shm->addr)[1], g_M))
__CPROVER_ensures (__CPROVER_return_value <= g_M - 1)
;

/* ------------------------------------------------------------------ write */
pssize
p_shm_buffer_write (PShmBuffer *buf, ppointer data, psize len, PError **error)
__CPROVER_requires (WF_HANDLE (buf) && GHOSTS_INIT_RW)
__CPROVER_requires (len >= 1)
__CPROVER_requires (USER_BUF (data, len))
__CPROVER_requires (error == NULL)
__CPROVER_assigns (GHOSTS, __CPROVER_object_upto (buf->shm->addr, 16))
/* one lock bracket */
__CPROVER_ensures (g_lock_calls == 1 && !g_mon_held && g_unlock_calls == (g_lock_failed ? 0 : 1))
__CPROVER_ensures (g_lock_failed ==> (__CPROVER_return_value == -1 && g_ncpy == 0))
__CPROVER_ensures ((!g_lock_failed && g_unlock_failed) ==> __CPROVER_return_value == -1)
/* does not fit: nothing appended, 0 returned */
__CPROVER_ensures ((!g_lock_failed && len > FREE (L_rp, L_wp, g_M)) ==>
	(g_ncpy == 0 && U_rp == L_rp && U_wp == L_wp && (g_unlock_failed || __CPROVER_return_value == 0)))
/* fits: all len bytes appended in order behind the old content, len returned */
__CPROVER_ensures ((!g_lock_failed && len <= FREE (L_rp, L_wp, g_M)) ==>
	(U_rp == L_rp && U_wp == ADDMOD (L_wp, len, g_M) && (g_unlock_failed || __CPROVER_return_value == (pssize) len)))
__CPROVER_ensures ((!g_lock_failed && len <= FREE (L_rp, L_wp, g_M) && g_k < len) ==>
	(W_PLACED (0, g_k, ADDMOD (L_wp, g_k, g_M)) || W_PLACED (1, g_k, ADDMOD (L_wp, g_k, g_M))))
__CPROVER_ensures ((!g_lock_failed && len <= FREE (L_rp, L_wp, g_M)) ==>
	((g_ncpy < 1 || CPY_WR (0, data, buf->shm->addr)) && (g_ncpy < 2 || CPY_WR (1, data, buf->shm->addr)) && DISJOINT_DST &&
	 (g_ncpy == 0 ? 0 : g_ncpy == 1 ? g_cpy[0].n : g_cpy[0].n + g_cpy[1].n) == len))
/* unread bytes are not overwritten */
__CPROVER_ensures ((!g_lock_failed && g_j < USED (L_rp, L_wp, g_M)) ==>
	(!DST_HITS (0, 16 + ADDMOD (L_rp, g_j, g_M)) && !DST_HITS (1, 16 + ADDMOD (L_rp, g_j, g_M))))
;

/* ------------------------------------------------------------------ read */
/* known finding C08_READ_INT_TRUNC: the count is returned through a pint; region = counts above INT_MAX */
#if defined (KF_EXCLUDE_C08_READ_INT_TRUNC)
#  define KF_REGION_READ_RET(n) ((n) <= 0x7fffffff)
#elif defined (KF_ONLY_C08_READ_INT_TRUNC)
#  define KF_REGION_READ_RET(n) ((n) > 0x7fffffff)
#else
#  define KF_REGION_READ_RET(n) 1
#endif
pint
p_shm_buffer_read (PShmBuffer *buf, ppointer storage, psize len, PError **error)
__CPROVER_requires (WF_HANDLE (buf) && GHOSTS_INIT_RW)
__CPROVER_requires (len >= 1)
__CPROVER_requires (USER_BUF (storage, len))
__CPROVER_requires (error == NULL)
__CPROVER_assigns (GHOSTS, __CPROVER_object_upto (buf->shm->addr, 16))
__CPROVER_ensures (g_lock_calls == 1 && !g_mon_held && g_unlock_calls == (g_lock_failed ? 0 : 1))
__CPROVER_ensures (g_lock_failed ==> (__CPROVER_return_value == -1 && g_ncpy == 0))
__CPROVER_ensures ((!g_lock_failed && g_unlock_failed) ==> __CPROVER_return_value == -1)
/* removes and returns the oldest min(len, used) bytes */
__CPROVER_ensures (!g_lock_failed ==>
	(U_wp == L_wp &&
	 U_rp == ADDMOD (L_rp, (USED (L_rp, L_wp, g_M) <= len ? USED (L_rp, L_wp, g_M) : len), g_M) &&
	 (g_unlock_failed || !KF_REGION_READ_RET (USED (L_rp, L_wp, g_M) <= len ? USED (L_rp, L_wp, g_M) : len) ||
	  (__CPROVER_return_value >= 0 && (psize) __CPROVER_return_value == (USED (L_rp, L_wp, g_M) <= len ? USED (L_rp, L_wp, g_M) : len)))))
__CPROVER_ensures ((!g_lock_failed && g_k < (USED (L_rp, L_wp, g_M) <= len ? USED (L_rp, L_wp, g_M) : len)) ==>
	(R_PLACED (0, g_k, ADDMOD (L_rp, g_k, g_M)) || R_PLACED (1, g_k, ADDMOD (L_rp, g_k, g_M))))
__CPROVER_ensures (!g_lock_failed ==>
	((g_ncpy < 1 || CPY_RD (0, storage, buf->shm->addr)) && (g_ncpy < 2 || CPY_RD (1, storage, buf->shm->addr)) && DISJOINT_DST &&
	 (g_ncpy == 0 ? 0 : g_ncpy == 1 ? g_cpy[0].n : g_cpy[0].n + g_cpy[1].n) == (USED (L_rp, L_wp, g_M) <= len ? USED (L_rp, L_wp, g_M) : len)))
;

/* ------------------------------------------------------------------ space queries and clear */
pssize
p_shm_buffer_get_free_space (PShmBuffer *buf, PError **error)
__CPROVER_requires (WF_HANDLE (buf) && GHOSTS_INIT && error == NULL)
__CPROVER_assigns (GHOSTS, __CPROVER_object_upto (buf->shm->addr, 16))
__CPROVER_ensures (g_lock_calls == 1 && !g_mon_held && g_unlock_calls == (g_lock_failed ? 0 : 1) && g_ncpy == 0)
__CPROVER_ensures ((g_lock_failed || g_unlock_failed) ==> __CPROVER_return_value == -1)
__CPROVER_ensures ((!g_lock_failed && !g_unlock_failed) ==> __CPROVER_return_value == (pssize) FREE (L_rp, L_wp, g_M))
__CPROVER_ensures (!g_lock_failed ==> (U_rp == L_rp && U_wp == L_wp))
;

pssize
p_shm_buffer_get_used_space (PShmBuffer *buf, PError **error)
__CPROVER_requires (WF_HANDLE (buf) && GHOSTS_INIT && error == NULL)
__CPROVER_assigns (GHOSTS, __CPROVER_object_upto (buf->shm->addr, 16))
__CPROVER_ensures (g_lock_calls == 1 && !g_mon_held && g_unlock_calls == (g_lock_failed ? 0 : 1) && g_ncpy == 0)
__CPROVER_ensures ((g_lock_failed || g_unlock_failed) ==> __CPROVER_return_value == -1)
__CPROVER_ensures ((!g_lock_failed && !g_unlock_failed) ==> __CPROVER_return_value == (pssize) USED (L_rp, L_wp, g_M))
__CPROVER_ensures (!g_lock_failed ==> (U_rp == L_rp && U_wp == L_wp))
;

void
p_shm_buffer_clear (PShmBuffer *buf)
__CPROVER_requires (WF_HANDLE (buf) && GHOSTS_INIT)
__CPROVER_assigns (GHOSTS, __CPROVER_object_upto (buf->shm->addr, 16))
__CPROVER_ensures (g_lock_calls == 1 && !g_mon_held && g_unlock_calls == (g_lock_failed ? 0 : 1) && g_ncpy == 0)
__CPROVER_ensures (!g_lock_failed ==> (U_rp == 0 && U_wp == 0))
/* the only bulk store is one memset of zeros over exactly the segment, under the lock */
__CPROVER_ensures (!g_lock_failed ==> (g_nset == 1 && g_set_held && g_set_dst == buf->shm->addr && g_set_n == g_M + 16 && g_set_c == 0))
__CPROVER_ensures (g_lock_failed ==> g_nset == 0)
;

/* ------------------------------------------------------------------ harnesses */
void h_free_space (void) { const PShmBuffer *b; psize r = pp_shm_buffer_get_free_space (b); if (r == 0) CANARY ("full"); if (r > 5) CANARY ("room"); }
void h_used_space (void) { const PShmBuffer *b; psize r = pp_shm_buffer_get_used_space (b); if (r == 0) CANARY ("empty"); if (r > 5) CANARY ("some"); }

void h_write (void)
{
	PShmBuffer *b; ppointer data; psize len; PError **e;
	pssize r = p_shm_buffer_write (b, data, len, e);
	if (r == 0) CANARY ("does not fit");
	if (r > 0 && g_ncpy == 1) CANARY ("contiguous append");
	if (r > 0 && g_ncpy == 2) CANARY ("append wraps around the ring end");
	if (r < 0) CANARY ("lock failure");
	if (r > 0 && (psize) r == g_M - 1) CANARY ("fills the whole capacity");
}

void h_read (void)
{
	PShmBuffer *b; ppointer sto; psize len; PError **e;
	pint r = p_shm_buffer_read (b, sto, len, e);
	if (r == 0) CANARY ("empty");
	if (r > 0 && g_ncpy == 1) CANARY ("contiguous read");
	if (r > 0 && g_ncpy == 2) CANARY ("read wraps around the ring end");
	if (r < 0) CANARY ("lock failure");
	if (r > 0 && (psize) r < len) CANARY ("short read: less used than asked");
}

void h_get_free (void) { PShmBuffer *b; PError **e; pssize r = p_shm_buffer_get_free_space (b, e); if (r >= 0) CANARY ("ok"); else CANARY ("fail"); }
void h_get_used (void) { PShmBuffer *b; PError **e; pssize r = p_shm_buffer_get_used_space (b, e); if (r >= 0) CANARY ("ok"); else CANARY ("fail"); }
void h_clear (void) { PShmBuffer *b; p_shm_buffer_clear (b); if (g_lock_failed) CANARY ("lock failed"); else CANARY ("cleared"); }

/* lemma: used + free = capacity, for every modulus and positions (pure arithmetic over the spec) */
void h_lemma_used_plus_free (void)
{
	psize M, rp, wp;
	__CPROVER_assume (M >= 2 && rp < M && wp < M);
	OBL (USED (rp, wp, M) + FREE (rp, wp, M) == M - 1, "used + free = capacity");
	OBL (USED (rp, wp, M) <= M - 1, "used <= capacity");
	CANARY ("end");
}
