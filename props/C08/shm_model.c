/* TRUSTED: p_shm_lock/p_shm_unlock (monitor rule) -- lock: may fail; on success the header words of the segment are HAVOCKED (any other handle/process may have moved them) under the ring invariant rp,wp < M, and are snapshotted (L_rp, L_wp); unlock: requires the lock held, checks the ring invariant, snapshots the header (U_rp, U_wp) and havocs it again. Whatever the operation read before the lock or writes after the unlock is therefore lost, so a postcondition over (L_*, U_*, copy log) holds only if every access is inside the bracket */
/* TRUSTED: p_shm_get_address/p_shm_get_size -- getters of the ghost PShm {addr, size} (C07 proves the real ones) */
#ifndef C08_SHM_MODEL_C
#define C08_SHM_MODEL_C
#include "env/verif.h"
#include "env/memlog.c"
#include "pshm.h"

struct PShm_ { char *addr; psize size; };

PShm        *g_shm;            /* the segment of the handle under test */
psize        g_M;              /* true ring modulus of the segment = segment size - 16 */
unsigned     g_lock_calls, g_unlock_calls;
_Bool        g_lock_failed, g_unlock_failed;
psize        L_rp, L_wp, U_rp, U_wp;

void shm_model_reset (void)
{
	g_lock_calls = g_unlock_calls = 0; g_lock_failed = g_unlock_failed = 0; g_mon_held = 0;
	memlog_reset ();
}

ppointer p_shm_get_address (const PShm *shm) { return shm == NULL ? NULL : shm->addr; }
psize    p_shm_get_size (const PShm *shm)    { return shm == NULL ? 0 : shm->size; }

pboolean p_shm_lock (PShm *shm, PError **error)
{
	ENV_REQ (shm == g_shm, "p_shm_lock: the lock of the buffer's own segment");
	ENV_REQ (!g_mon_held, "p_shm_lock: not already held by this operation");
	g_lock_calls++;
	if (nondet_bool ()) { g_lock_failed = 1; return FALSE; }
	psize rp = nondet_size_t (), wp = nondet_size_t ();
	__CPROVER_assume (rp < g_M && wp < g_M);
	((psize *) shm->addr)[0] = rp; ((psize *) shm->addr)[1] = wp;
	L_rp = rp; L_wp = wp;
	g_mon_held = 1;
	return TRUE;
}

pboolean p_shm_unlock (PShm *shm, PError **error)
{
	ENV_REQ (shm == g_shm, "p_shm_unlock: the lock of the buffer's own segment");
	ENV_REQ (g_mon_held, "p_shm_unlock: lock is held");
	g_unlock_calls++;
	U_rp = ((psize *) shm->addr)[0]; U_wp = ((psize *) shm->addr)[1];
	ENV_REQ (U_rp < g_M && U_wp < g_M, "ring invariant restored at unlock: positions below the modulus");
	g_mon_held = 0;
	((psize *) shm->addr)[0] = nondet_size_t (); ((psize *) shm->addr)[1] = nondet_size_t ();
	if (nondet_bool ()) { g_unlock_failed = 1; return FALSE; }
	return TRUE;
}
#endif
