LEVEL = "proof"
S = ["pshmbuffer.c"]
def U(id, entry, enforce=None, replace=(), **kw):
    d = dict(id=id, harness="ring.c", entry=entry, sources=S, enforce=enforce, replace=list(replace), timeout=900,
             cbmc_flags=["--sat-solver", "cadical"])
    d.update(kw)
    return d
UNITS = [
    U("free_space", "h_free_space", "pp_shm_buffer_get_free_space", canaries=2),
    U("used_space", "h_used_space", "pp_shm_buffer_get_used_space", canaries=2),
    U("write", "h_write", "p_shm_buffer_write", canaries=5, defines_quick=["MAXM_BITS=31"], defines_thorough=["MAXM_BITS=40"], timeout_thorough=1800,
      bound={"quick": "capacity (ring modulus) <= 2^31 bytes; positions, lengths, contents unconstrained", "thorough": "capacity <= 2^40 bytes (CBMC pointer-offset width limits the modelled object size)"}),
    U("read", "h_read", "p_shm_buffer_read", canaries=5, defines_quick=["MAXM_BITS=31"], defines_thorough=["MAXM_BITS=40"], timeout_thorough=1800,
      bound={"quick": "capacity (ring modulus) <= 2^31 bytes; positions, lengths, contents unconstrained", "thorough": "capacity <= 2^40 bytes"}),
    U("get_free", "h_get_free", "p_shm_buffer_get_free_space", canaries=2),
    U("get_used", "h_get_used", "p_shm_buffer_get_used_space", canaries=2),
    U("clear", "h_clear", "p_shm_buffer_clear", canaries=2),
    U("lemma_used_plus_free", "h_lemma_used_plus_free", None, functions=[]),
]
