LEVEL = "proof"
S = ["pshmbuffer.c"]
def U(id, entry, enforce=None, replace=(), **kw):
    d = dict(id=id, harness="ring.c", entry=entry, sources=S, enforce=enforce, replace=list(replace), timeout=900,
             cbmc_flags=["--sat-solver", "cadical"])
    d.update(kw)
    return d
UNITS = [
    U("free_space", "h_free_space", "pp_shm_buffer_get_free_space", canaries=2),
    U("used_space", "h_used_space", "pp_shm_buffer_get_used_space", canaries=2),
    U("write", "h_write", "p_shm_buffer_write", canaries=5, defines_quick=["MAXM_BITS=32"], defines_thorough=["MAXM_BITS=40"], timeout_thorough=1800,
      bound={"quick": "capacity (ring modulus) <= 2^32 bytes; positions, lengths, contents unconstrained", "thorough": "capacity <= 2^40 bytes (CBMC pointer-offset width limits the modelled object size)"}),
    U("read", "h_read", "p_shm_buffer_read", canaries=5, defines_quick=["MAXM_BITS=32"], defines_thorough=["MAXM_BITS=40"], timeout_thorough=1800,
      bound={"quick": "capacity (ring modulus) <= 2^32 bytes; positions, lengths, contents unconstrained", "thorough": "capacity <= 2^40 bytes"}),
    U("get_free", "h_get_free", "p_shm_buffer_get_free_space", canaries=2),
    U("get_used", "h_get_used", "p_shm_buffer_get_used_space", canaries=2),
    U("clear", "h_clear", "p_shm_buffer_clear", canaries=2),
    U("new_free_own", "h_new", None, harness="newfree.c", canaries=4, memleak=True, functions=["p_shm_buffer_new", "p_shm_buffer_free", "p_shm_buffer_take_ownership"],
      cbmc_flags=["--memory-leak-check"]),
    U("new_null", "h_new_null", None, harness="newfree.c", functions=[]),
    U("lemma_used_plus_free", "h_lemma_used_plus_free", None, functions=[]),
]
# the ring relies on the C07 contract of PShm (one lock per name, creator resets it, openers share it); the C07 units that
# establish that contract on the real pshm-posix.c / psemaphore-posix.c run here too, so that a change in those files is
# reported under this property as well (the region of C07's own known findings is excluded here and decided under C07)
import os as _os, importlib.util as _ilu
def _c07(ids):
    p = _os.path.join(_os.path.dirname(_os.path.abspath(__file__)), "..", "C07", "units.py")
    sp = _ilu.spec_from_file_location("c07_for_c08", p); m = _ilu.module_from_spec(sp); sp.loader.exec_module(m)
    out = []
    for u in m.UNITS:
        if u["id"] in ids:
            v = dict(u); v["id"] = "c07_" + u["id"]; v["harness"] = "../C07/" + u["harness"]
            v["defines"] = list(v.get("defines", [])) + ["KF_EXCLUDE_C07_ZERO_SIZE_LEFTOVER"]
            out.append(v)
    return out
UNITS += _c07(["new", "lock_unlock", "free"])

TECHNIQUE = "CBMC function contracts (DFCC) on the real pshmbuffer.c; monitor-rule lock model; bulk copies checked through a memcpy call log so that byte placement is proved for symbolic capacity"
LEVEL_TEXT = ("Contracts on every function of pshmbuffer.c: space arithmetic for every modulus/positions; write/read: return value, new positions, "
              "placement of every byte (ghost index = forall) via the logged memcpy calls, no overwrite of unread bytes, all segment accesses inside exactly one "
              "lock/unlock bracket (monitor rule: header havocked at lock and after unlock), frame = 16 header bytes + ghosts (DFCC assigns check), "
              "for every capacity up to 2^32 (quick) / 2^40 (thorough) bytes, every position and every length; loop-free, no unwinding. "
              "new/free/take_ownership against the C07 contract of PShm; the C07 units new / lock_unlock / free on the real pshm-posix.c and psemaphore-posix.c run under this property as well.")
LEVEL_NOTE = ("Trusted: memcpy/memset call-log model (bulk copies are recorded, not performed; meaning of a recorded copy is memcpy's C semantics), "
              "monitor-rule soundness, p_shm_* model (proved of the real code in C07), allocator model. Capacity bounded at 2^32/2^40 by solver time and "
              "CBMC's pointer-offset width. Cross-process visibility is the kernel's. Known findings: read count > INT_MAX, open with smaller size.")
