import os, sys
sys.path.insert(0, os.path.join(os.path.dirname(os.path.abspath(__file__)), "..", "sock"))
import importlib, sockunits
importlib.reload(sockunits)
LEVEL = "proof"
UNITS = list(sockunits.XFER_UNITS)
REQUIRE_CONFIGURED = ["psocket.c", "perror.c"]
TECHNIQUE = "CBMC function contracts (DFCC) on the real psocket.c transfer/accept/connect wrappers; loop contracts close every retry loop (unbounded EINTR/EAGAIN/short-transfer sequences); callees by contract replacement"
LEVEL_TEXT = ("send/send_to/receive/receive_from/accept/connect/io_condition_wait: for every socket state and every sequence of native results (any errno at any call, any short "
              "count): at most one successful native transfer per call, issued on the socket's live descriptor with the caller's buffer and length (MSG_NOSIGNAL on send), "
              "result = exactly that call's count, -1 only when none succeeded; EINTR never surfaces; in blocking mode a would-block of the transfer call never surfaces; "
              "non-blocking never polls; receive_from reports the kernel's sender address; accept wraps or closes the new descriptor. Retry loops are closed by injected "
              "loop invariants, so the number of faults is unbounded. Stream/datagram integrity then is TCP/UDP's: the library neither buffers, re-sends nor drops.")
LEVEL_NOTE = ("Trusted: BSD socket call contracts in env/sockets.c (kernel TCP/UDP behaviour, data contents), errno read stubs, p_error_set_error_p stub, allocator model, "
              "'a failing close leaves the descriptor open'. Buffer lengths above 2^32-1 are truncated by the (socklen_t) cast in the code: accepted as a short transfer "
              "(length passed <= caller's length is what is required). SIGPIPE: MSG_NOSIGNAL flag checked; p_socket_init_once's signal(SIGPIPE, SIG_IGN) not verified.")
