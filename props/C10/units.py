import os, sys
sys.path.insert(0, os.path.join(os.path.dirname(os.path.abspath(__file__)), "..", "sock"))
import importlib, sockunits
importlib.reload(sockunits)
from sockunits import S, EM, W
LEVEL = "proof"
UNITS = [sockunits.ERRMAP, sockunits.IO_WAIT, sockunits.SEND, sockunits.RECV, sockunits.SENDTO, sockunits.RECVFROM, sockunits.CCR, sockunits.SYS_CLOSE, sockunits.CONNECT, sockunits.ACCEPT,
    S("new", "h_new", "p_socket_new", [EM], canaries=4, cbmc_flags=["--object-bits", "10"]),
    S("close", "h_close", "p_socket_close", [EM], canaries=3),
    S("bind", "h_bind", "p_socket_bind", [EM], canaries=3),
    S("listen", "h_listen", "p_socket_listen", [EM], canaries=3),
    S("shutdown", "h_shutdown", "p_socket_shutdown", [EM], canaries=4),
    S("set_buffer_size", "h_set_buffer_size", "p_socket_set_buffer_size", [EM], canaries=3),
    S("set_timeout", "h_set_timeout", "p_socket_set_timeout", canaries=2),
    S("set_blocking", "h_set_blocking", "p_socket_set_blocking"),
    S("set_listen_backlog", "h_set_listen_backlog", "p_socket_set_listen_backlog"),
    S("set_keepalive", "h_set_keepalive", "p_socket_set_keepalive", canaries=2),
    S("getters_and_free", "h_getters_and_free", None, [EM], functions=["p_socket_free", "p_socket_get_fd", "p_socket_get_timeout", "p_socket_is_closed", "p_socket_is_connected", "p_socket_get_family", "p_socket_get_type", "p_socket_get_protocol", "p_socket_get_keepalive", "p_socket_get_blocking", "p_socket_get_listen_backlog"]),
    S("get_addresses", "h_get_addresses", None, [EM], canaries=4, functions=["p_socket_get_local_address", "p_socket_get_remote_address", "p_socket_address_new_from_native"]),
]
REQUIRE_CONFIGURED = ["psocket.c", "psysclose-unix.c"]
TECHNIQUE = "CBMC function contracts (DFCC) on the public API of psocket.c over a ghost descriptor table (live, close-on-exec, non-blocking); loop contract on the poll loop"
LEVEL_TEXT = ("Per function, for every socket state: operations that report errors fail on a closed socket with NOT_AVAILABLE and issue no native call at all; close is idempotent, "
              "closes the descriptor exactly once, resets fd/connected/listening; no native call is ever issued on a descriptor the ghost table says is closed; new and accepted "
              "sockets carry close-on-exec and O_NONBLOCK with default getters (blocking, timeout 0, backlog 5), no descriptor survives a failed constructor; every poll carries "
              "timeout>0 ? timeout : -1 and is re-issued unchanged after EINTR, result 0 maps to TIMED_OUT (so 'not before T' is poll's contract), non-blocking calls never poll, "
              "non-blocking connect in progress reports in-progress/would-block; setters/getters (timeout clamp, backlog frozen while listening, keepalive only on setsockopt success, "
              "shutdown(both) clears connected). 'Always reflect the calls made so far' follows by induction over the per-call contracts (paper step).")
LEVEL_NOTE = ("Trusted: env/sockets.c (kernel: poll waits the full timeout before returning 0; fcntl get/set-fd cannot fail on a live descriptor; a failing close leaves the descriptor open), "
              "error stub, allocator model. Elapsed wall time is not modelled. Bit-field frames are pinned by explicit ensures because DFCC assigns targets cover whole storage units. Address getters (unit get_addresses): open sockets only -- on a closed socket the real code hands fd -1 to getsockname/getpeername and reports EBADF; that is outside the I/O calls the property speaks about and outside the unit.")
