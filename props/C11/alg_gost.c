/* C11 -- GOST R 34.11-94 (pcryptohash-gost3411.c): 256-bit checksum arithmetic, buffering, bit-length counter, padding and
 * the final (length, checksum) blocks; the step function by its block-order contract.
 * -DUNIT_SUM: the real pp_crypto_hash_gost3411_sum_256 against a carry-form spec (fixed 8 limbs)
 * -DUNIT_UPDATE / -DUNIT_FINISH: stream discipline as in alg_md.c; sum_256 and process by contract */
/* TRUSTED: memcpy (stream model, see alg_md.c); GOST step function pp_crypto_hash_gost3411_process = the standard's with the CryptoPro S-box -- ASSUMED; only its call-order contract is used */
#include "env/verif.h"
#include "env/alloc.c"
#include <string.h>

const char *g_data0; size_t g_data_len, g_consumed, g_buffered, g_blocks, g_len0, g_oldb;
const unsigned char *g_buf0; const void *g_len_ptr, *g_sum_ptr;
size_t g_len_adds, g_sum_adds;
unsigned g_add_lo, g_add_hi, g_add_rest_zero;
unsigned g_proc_calls; int g_what0, g_what1, g_what2; size_t g_sums0, g_sums1, g_sums2;   /* finish: which block each step call compressed (1 = data buffer, 2 = length, 3 = checksum) */
unsigned g_k; unsigned char g_seen;
#define DOFF(p) ((size_t) __CPROVER_POINTER_OFFSET (p))
#define BLOCK 32u

#if defined (UNIT_UPDATE)
void *memcpy (void *d, const void *s, size_t n)
{
	ENV_REQ (__CPROVER_same_object (s, g_data0) && DOFF (s) == g_consumed, "bytes are taken from the caller's data in order, none skipped, none twice");
	ENV_REQ (n <= g_data_len - g_consumed, "no read beyond the caller's data");
	ENV_REQ (__CPROVER_same_object (d, g_buf0) && DOFF (d) == DOFF (g_buf0) + g_buffered, "bytes are appended right behind the pending bytes of the block buffer");
	ENV_REQ (n <= BLOCK - g_buffered, "the block buffer is not overrun");
	g_consumed += n; g_buffered += n;
	return d;
}
#endif
#include "pcryptohash-gost3411.c"

#if defined (UNIT_SUM)
/* a := (a + b) mod 2^256 over eight little-endian 32-bit limbs -- spec with a 64-bit intermediate per limb */
void h_sum_256 (void)
{
	puint32 a[8], b[8], a0[8]; unsigned i = nondet_uint (); __CPROVER_assume (i < 8);
	for (unsigned k = 0; k < 8; k++) a0[k] = a[k];
#ifdef KF_EXCLUDE_C11_GOST_CARRY
#endif
	pp_crypto_hash_gost3411_sum_256 (a, b);
	puint64 c = 0; puint32 exp_i = 0;
	for (unsigned k = 0; k < 8; k++) { puint64 t = (puint64) a0[k] + b[k] + c; if (k == i) exp_i = (puint32) t; c = t >> 32; }
	OBL (a[i] == exp_i, "limb i of a equals limb i of (a + b) mod 2^256, every carry propagated");
	CANARY ("end");
}
#endif

#if defined (UNIT_UPDATE) || defined (UNIT_FINISH)
static void pp_crypto_hash_gost3411_process (PHashGOST3411 *ctx, const puint32 data[8])
#if defined (UNIT_UPDATE)
__CPROVER_requires (g_buffered == BLOCK && (const void *) data == (const void *) ctx->buf)
__CPROVER_assigns (__CPROVER_object_upto (ctx->hash, sizeof (ctx->hash)), g_blocks, g_buffered)
__CPROVER_ensures (g_blocks == __CPROVER_old (g_blocks) + 1 && g_buffered == 0)
#else
__CPROVER_requires (g_proc_calls < 3)
__CPROVER_requires ((const void *) data == (const void *) ctx->buf || (const void *) data == (const void *) ctx->len || (const void *) data == (const void *) ctx->sum)
__CPROVER_assigns (__CPROVER_object_upto (ctx->hash, sizeof (ctx->hash)), g_proc_calls, g_what0, g_what1, g_what2, g_sums0, g_sums1, g_sums2, g_seen)
__CPROVER_ensures (g_proc_calls == __CPROVER_old (g_proc_calls) + 1)
#define WHAT(data) ((const void *) data == (const void *) ctx->buf ? 1 : (const void *) data == (const void *) ctx->len ? 2 : 3)
#define SLOT(n, w, s) __CPROVER_ensures (w == (__CPROVER_old (g_proc_calls) == n ? WHAT (data) : __CPROVER_old (w)) && s == (__CPROVER_old (g_proc_calls) == n ? g_sum_adds : __CPROVER_old (s)))
SLOT (0, g_what0, g_sums0) SLOT (1, g_what1, g_sums1) SLOT (2, g_what2, g_sums2)
__CPROVER_ensures ((const void *) data == (const void *) ctx->buf ==> g_seen == ((const unsigned char *) data)[g_k])
__CPROVER_ensures ((const void *) data != (const void *) ctx->buf ==> g_seen == __CPROVER_old (g_seen))
#endif
;
/* the checksum/length adder by contract (its arithmetic is unit gost_sum_256) */
static void pp_crypto_hash_gost3411_sum_256 (puint32 a[8], const puint32 b[8])
__CPROVER_requires ((const void *) a == g_len_ptr || (const void *) a == g_sum_ptr)
__CPROVER_requires ((const void *) a == g_sum_ptr ==> ((const void *) b == (const void *) g_buf0))   /* the checksum accumulates exactly the block just compressed */
__CPROVER_assigns (__CPROVER_object_upto (a, 32), g_len_adds, g_sum_adds, g_add_lo, g_add_hi, g_add_rest_zero)
__CPROVER_ensures ((const void *) a == g_len_ptr ==> (g_len_adds == __CPROVER_old (g_len_adds) + 1 && g_sum_adds == __CPROVER_old (g_sum_adds) && g_add_lo == b[0] && g_add_hi == b[1] &&
	g_add_rest_zero == ((b[2] == 0 && b[3] == 0 && b[4] == 0 && b[5] == 0 && b[6] == 0 && b[7] == 0) ? 1u : 0u)))
__CPROVER_ensures ((const void *) a == g_sum_ptr ==> (g_sum_adds == __CPROVER_old (g_sum_adds) + 1 && g_len_adds == __CPROVER_old (g_len_adds) &&
	g_add_lo == __CPROVER_old (g_add_lo) && g_add_hi == __CPROVER_old (g_add_hi) && g_add_rest_zero == __CPROVER_old (g_add_rest_zero)))
;
#define PENDING(ctx) ((size_t) (((ctx)->len[0] & 0xFF) >> 3))
#define CTX_OK(ctx) (__CPROVER_is_fresh (ctx, sizeof (PHashGOST3411)) && g_buf0 == (const unsigned char *) ctx->buf && g_len_ptr == (const void *) ctx->len && \
	g_sum_ptr == (const void *) ctx->sum && (ctx->len[0] & 7) == 0)
#endif

#if defined (UNIT_UPDATE)
void p_crypto_hash_gost3411_update (PHashGOST3411 *ctx, const puchar *data, psize len)
__CPROVER_requires (CTX_OK (ctx))
__CPROVER_requires (__CPROVER_is_fresh (data, 1) && g_data0 == (const char *) data && g_data_len == len && g_len0 == len && len < ((psize) 1 << 55))
__CPROVER_requires (g_consumed == 0 && g_blocks == 0 && g_buffered == PENDING (ctx) && g_oldb == g_buffered && g_len_adds == 0 && g_sum_adds == 0)
__CPROVER_assigns (g_consumed, g_buffered, g_blocks, g_len_adds, g_sum_adds, g_add_lo, g_add_hi, g_add_rest_zero,
	__CPROVER_object_upto (ctx->buf, 32), __CPROVER_object_upto (ctx->hash, 32), __CPROVER_object_upto (ctx->len, 32), __CPROVER_object_upto (ctx->sum, 32))
__CPROVER_ensures (g_consumed == len)
__CPROVER_ensures (g_blocks * BLOCK + g_buffered == g_oldb + len && g_blocks <= len / BLOCK + 1 && g_buffered < BLOCK)
/* the 256-bit bit-length counter grows by exactly len * 8 */
__CPROVER_ensures (g_len_adds == 1 && g_add_lo == (puint32) (len << 3) && g_add_hi == (puint32) (len >> 29) && g_add_rest_zero == 1)
/* every compressed block, and nothing else, is added to the checksum */
__CPROVER_ensures (g_sum_adds == g_blocks)
;
void h_update (void) { PHashGOST3411 *c; const puchar *d; psize n; p_crypto_hash_gost3411_update (c, d, n); if (g_blocks == 0) CANARY ("buffered only"); if (g_blocks == 1) CANARY ("one block"); if (g_blocks > 2 && g_buffered > 0) CANARY ("many blocks and a tail"); if (n >= ((psize) 1 << 32)) CANARY ("4 GiB and more in one update"); }
#endif

#if defined (UNIT_FINISH)
void p_crypto_hash_gost3411_finish (PHashGOST3411 *ctx)
__CPROVER_requires (CTX_OK (ctx) && g_proc_calls == 0 && g_sum_adds == 0 && g_len_adds == 0 && g_k < 32)
__CPROVER_assigns (g_proc_calls, g_what0, g_what1, g_what2, g_sums0, g_sums1, g_sums2, g_seen, g_len_adds, g_sum_adds, g_add_lo, g_add_hi, g_add_rest_zero,
	__CPROVER_object_upto (ctx->buf, 32), __CPROVER_object_upto (ctx->hash, 32), __CPROVER_object_upto (ctx->sum, 32))
/* pending bytes: zero-padded to a block, compressed, added to the checksum; then the length block, then the checksum block */
__CPROVER_ensures (PENDING (ctx) > 0 ==> (g_proc_calls == 3 && g_what0 == 1 && g_what1 == 2 && g_what2 == 3 &&
	g_sum_adds == 1 && g_sums0 == 0 && g_sums1 == 1))
__CPROVER_ensures (PENDING (ctx) == 0 ==> (g_proc_calls == 2 && g_what0 == 2 && g_what1 == 3 && g_sum_adds == 0))
__CPROVER_ensures ((PENDING (ctx) > 0 && g_k >= PENDING (ctx)) ==> g_seen == 0)
__CPROVER_ensures ((PENDING (ctx) > 0 && g_k < PENDING (ctx)) ==> g_seen == __CPROVER_old (((const unsigned char *) ctx->buf)[g_k]))
__CPROVER_ensures (g_len_adds == 0)
;
void h_finish (void) { PHashGOST3411 *c; p_crypto_hash_gost3411_finish (c); if (g_proc_calls == 3) CANARY ("padded block"); if (g_proc_calls == 2) CANARY ("no pending bytes"); }
void h_reset (void)
{
	PHashGOST3411 *c = malloc (sizeof (PHashGOST3411)); __CPROVER_assume (c != NULL);
	unsigned i = nondet_uint (); __CPROVER_assume (i < 8);
	p_crypto_hash_gost3411_reset (c);
	OBL (c->hash[i] == 0 && c->len[i] == 0 && c->sum[i] == 0, "initial value, length and checksum are zero (GOST R 34.11-94)");
	OBL (p_crypto_hash_gost3411_digest (c) == (const puchar *) c->hash, "digest = H in place (little-endian words)");
	CANARY ("end");
}
#endif
