/* C11 -- Merkle-Damgard families (MD5, SHA-1, SHA-2 224/256, SHA-2 384/512): buffering, length counter, padding, length
 * encoding, digest byte order, initial values -- on the real source, with the compression function replaced by a
 * block-ORDER contract.  -DALG_MD5 / -DALG_SHA1 / -DALG_SHA256 / -DALG_SHA512
 *
 * Abstraction: message bytes are never copied; the memcpy contract demands that every copy takes the NEXT bytes of the
 * caller's data (offset = bytes consumed so far) and APPENDS them right behind the pending bytes of the block buffer, and
 * the compression contract demands a full buffer and empties it.  Under that discipline the sequence of blocks compressed
 * is exactly the 64/128-byte chunking of (pending bytes ++ data): independent of how the input is split into update calls. */
/* TRUSTED: memcpy (stream model) -- a copy is checked against the in-order/append discipline and counted, bytes are not moved (memcpy copies faithfully: C semantics) */
/* TRUSTED: compression function pp_crypto_hash_*_process = the standard's compression function -- ASSUMED (whole-function and per-round equivalence with an independent spec are out of reach of every installed solver, DESIGN.md section 2); only its block-order contract is used here; the published vectors of pcryptohash_test exercise every round */
#include "env/verif.h"
#include "env/alloc.c"
#include <string.h>

const char          *g_data0;   size_t g_data_len;   /* the caller's data: abstract object of logical length g_data_len */
const unsigned char *g_buf0;                         /* the context's block buffer */
size_t   g_consumed;                                 /* bytes of data taken so far, in order */
size_t   g_buffered;                                 /* pending bytes in the block buffer */
size_t   g_blocks;                                   /* blocks compressed by this call */
size_t   g_len0, g_oldb;                             /* len and pending count at entry (set by the contract's requires) */
unsigned long g_w14, g_w15;                          /* words 14/15 of the last compressed block */
unsigned g_hash_swaps, g_hash_swap_words;

#if defined (ALG_MD5)
#  define CTX_T PHashMD5
#  define FN(x) p_crypto_hash_md5_##x
#  define PP(x) pp_crypto_hash_md5_##x
#  define BLOCK 64u
#  define WORD_T puint32
#  define LEN_AT 56
#  define HASH_WORDS(ctx) 4
#  define SRC "pcryptohash-md5.c"
#elif defined (ALG_SHA1)
#  define CTX_T PHashSHA1
#  define FN(x) p_crypto_hash_sha1_##x
#  define PP(x) pp_crypto_hash_sha1_##x
#  define BLOCK 64u
#  define WORD_T puint32
#  define LEN_AT 56
#  define HASH_WORDS(ctx) 5
#  define SRC "pcryptohash-sha1.c"
#elif defined (ALG_SHA256)
#  define CTX_T PHashSHA2_256
#  define FN(x) p_crypto_hash_sha2_256_##x
#  define PP(x) pp_crypto_hash_sha2_256_##x
#  define BLOCK 64u
#  define WORD_T puint32
#  define LEN_AT 56
#  define HASH_WORDS(ctx) ((ctx)->is224 == FALSE ? 8 : 7)   /* SHA-224 = the first 7 words */
#  define SRC "pcryptohash-sha2-256.c"
#elif defined (ALG_SHA512)
#  define CTX_T PHashSHA2_512
#  define FN(x) p_crypto_hash_sha2_512_##x
#  define PP(x) pp_crypto_hash_sha2_512_##x
#  define BLOCK 128u
#  define WORD_T puint64
#  define LEN_AT 112
#  define HASH_WORDS(ctx) ((ctx)->is384 == FALSE ? 8 : 6)
#  define SRC "pcryptohash-sha2-512.c"
#elif defined (ALG_SHA3)
#  define CTX_T PHashSHA3
#  define FN(x) p_crypto_hash_sha3_##x
#  define PP(x) pp_crypto_hash_sha3_##x
size_t g_bs;                     /* rate in bytes (144/136/104/72) = ctx->block_size */
#  define BLOCK g_bs
#  define WORD_T puint64
#  define SRC "pcryptohash-sha3.c"
#endif
#define DOFF(p) ((size_t) __CPROVER_POINTER_OFFSET (p))

void *memcpy (void *d, const void *s, size_t n)
{
	ENV_REQ (__CPROVER_same_object (s, g_data0) && DOFF (s) == g_consumed, "bytes are taken from the caller's data in order, none skipped, none twice");
	ENV_REQ (n <= g_data_len - g_consumed, "no read beyond the caller's data");
	ENV_REQ (__CPROVER_same_object (d, g_buf0) && DOFF (d) == DOFF (g_buf0) + g_buffered, "bytes are appended right behind the pending bytes of the block buffer");
	ENV_REQ (n <= BLOCK - g_buffered, "the block buffer is not overrun");
	g_consumed += n; g_buffered += n;
	return d;
}
void *memset (void *d, int c, size_t n) { ENV_REQ (__CPROVER_w_ok (d, n), "memset target writable"); __CPROVER_havoc_slice (d, n); if (n > 0) ((char *) d)[0] = (char) c; return d; }

#if defined (ALG_MD5)
#  include "pcryptohash-md5.c"
#  define PADARR pp_crypto_hash_md5_pad
#elif defined (ALG_SHA1)
#  include "pcryptohash-sha1.c"
#  define PADARR pp_crypto_hash_sha1_pad
#elif defined (ALG_SHA256)
#  include "pcryptohash-sha2-256.c"
#  define PADARR pp_crypto_hash_sha2_256_pad
#elif defined (ALG_SHA512)
#  include "pcryptohash-sha2-512.c"
#  define PADARR pp_crypto_hash_sha2_512_pad
#elif defined (ALG_SHA3)
#  include "pcryptohash-sha3.c"
#endif

#define GH g_consumed, g_buffered, g_blocks, g_w14, g_w15, g_hash_swaps, g_hash_swap_words
#if defined (ALG_SHA3)
#  define PENDING(ctx) ((size_t) (ctx)->len)
#  ifndef SHA3_BS
#    define SHA3_BS_OK (g_bs == 144 || g_bs == 136 || g_bs == 104 || g_bs == 72)
#  else
#    define SHA3_BS_OK (g_bs == SHA3_BS)
#  endif
#  define BS_OK(ctx) (g_bs == (ctx)->block_size && SHA3_BS_OK && (ctx)->len < (ctx)->block_size)
#else
#  define PENDING(ctx) ((size_t) ((ctx)->len_low & (BLOCK - 1)))
#  define BS_OK(ctx) 1
#endif

/* ---- callee contracts (used by replacement; process: block-order contract only, see TRUSTED above) */
#if defined (ALG_SHA3)
static void PP (process) (CTX_T *ctx, const WORD_T *data)
#else
static void PP (process) (CTX_T *ctx, const WORD_T data[16])
#endif
#ifdef UNIT_FINISH
/* in finish the block is message/padding bytes up to the length field; the length words are stored directly (checked via g_w14/g_w15) */
__CPROVER_requires (g_buffered == LEN_AT)
#else
__CPROVER_requires (g_buffered == BLOCK)   /* a full block of in-order bytes, and only then */
#endif
__CPROVER_requires ((const void *) data == (const void *) ctx->buf.buf_w)
__CPROVER_assigns (__CPROVER_object_upto (ctx->hash, sizeof (ctx->hash)), g_blocks, g_buffered, g_w14, g_w15)
#if defined (ALG_SHA3)
__CPROVER_ensures (g_blocks == __CPROVER_old (g_blocks) + 1 && g_buffered == 0)
#else
__CPROVER_ensures (g_blocks == __CPROVER_old (g_blocks) + 1 && g_buffered == 0 && g_w14 == (unsigned long) data[14] && g_w15 == (unsigned long) data[15])
#endif
;
static void PP (swap_bytes) (WORD_T *data, puint words)
__CPROVER_requires (words <= 25 && __CPROVER_w_ok (data, words * sizeof (WORD_T)))
__CPROVER_assigns (__CPROVER_object_upto (data, words * sizeof (WORD_T)), g_hash_swaps, g_hash_swap_words)
__CPROVER_ensures (g_hash_swaps == __CPROVER_old (g_hash_swaps) + 1 && g_hash_swap_words == words)
;

/* ---- update: all of data, in order, exactly once; length counter += len exactly */
#if defined (ALG_SHA3)
#  define TOTAL_OK(ctx, len) 1   /* SHA-3 keeps no total length, only the pending count */
#  define LEN_FIELDS(ctx) (ctx)->len
#elif BLOCK == 64
#  define LEN_FIELDS(ctx) (ctx)->len_low, (ctx)->len_high
#  define TOTAL_OK(ctx, len) ((((puint64) (ctx)->len_high << 32) | (ctx)->len_low) == \
	(((puint64) __CPROVER_old ((ctx)->len_high) << 32) | __CPROVER_old ((ctx)->len_low)) + (puint64) (len))
#else
#  define LEN_FIELDS(ctx) (ctx)->len_low, (ctx)->len_high
#  define TOTAL_OK(ctx, len) ((ctx)->len_low == __CPROVER_old ((ctx)->len_low) + (puint64) (len) && \
	(ctx)->len_high == __CPROVER_old ((ctx)->len_high) + ((ctx)->len_low < __CPROVER_old ((ctx)->len_low) ? 1 : 0))
#endif
void FN (update) (CTX_T *ctx, const puchar *data, psize len)
__CPROVER_requires (__CPROVER_is_fresh (ctx, sizeof (CTX_T)) && g_buf0 == ctx->buf.buf && BS_OK (ctx))
__CPROVER_requires (__CPROVER_is_fresh (data, 1) && g_data0 == (const char *) data && g_data_len == len && g_len0 == len)
__CPROVER_requires (g_consumed == 0 && g_blocks == 0 && g_buffered == PENDING (ctx) && g_oldb == g_buffered)
__CPROVER_requires (len < ((psize) 1 << 55))   /* CBMC's pointer offsets are 56 bits wide: data + len must be representable */
/* known-finding / fixed-defect region: single updates of 2^32 bytes or more */
#if defined (KF_EXCLUDE_C11_UPDATE_4GIB)
__CPROVER_requires (len < ((psize) 1 << 32))
#elif defined (KF_ONLY_C11_UPDATE_4GIB)
__CPROVER_requires (len >= ((psize) 1 << 32))
#endif
__CPROVER_assigns (GH, LEN_FIELDS (ctx), __CPROVER_object_upto (ctx->buf.buf, sizeof (ctx->buf.buf)), __CPROVER_object_upto (ctx->hash, sizeof (ctx->hash)))
/* every byte consumed, in order (order is enforced call by call in the memcpy/process contracts) */
__CPROVER_ensures (g_consumed == len)
/* pending bytes = total mod block size, blocks compressed = what the concatenation (pending ++ data) fills */
#if defined (ALG_SHA3)
__CPROVER_ensures (g_buffered == PENDING (ctx) && g_buffered < BLOCK)
#else
__CPROVER_ensures (g_buffered == PENDING (ctx) && g_buffered == ((g_oldb + (len & (BLOCK - 1))) & (BLOCK - 1)))
#endif
__CPROVER_ensures (g_blocks * BLOCK + g_buffered == g_oldb + len && g_blocks <= len / BLOCK + 1)
/* the message length counter grows by exactly len, for every len (including >= 2^32) */
__CPROVER_ensures (TOTAL_OK (ctx, len))
;

#if !defined (ALG_SHA3)
/* ---- finish: standard padding 0x80 00.. then the bit length, one or two more blocks */
#define LASTLEN(ctx) ((size_t) (PENDING (ctx) < LEN_AT ? LEN_AT - PENDING (ctx) : (LEN_AT + BLOCK) - PENDING (ctx)))
#if defined (ALG_MD5)
#  define BITS_OK(lo, hi) (g_w14 == (puint32) ((lo) << 3) && g_w15 == (puint32) (((hi) << 3) | ((lo) >> 29)))   /* little-endian: low word first */
#elif BLOCK == 64
#  define BITS_OK(lo, hi) (g_w15 == (puint32) ((lo) << 3) && g_w14 == (puint32) (((hi) << 3) | ((lo) >> 29)))   /* big-endian: high word first */
#else
#  define BITS_OK(lo, hi) (g_w15 == (puint64) ((lo) << 3) && g_w14 == (puint64) (((hi) << 3) | ((lo) >> 61)))
#endif
void FN (finish) (CTX_T *ctx)
__CPROVER_requires (__CPROVER_is_fresh (ctx, sizeof (CTX_T)) && g_buf0 == ctx->buf.buf)
__CPROVER_requires (g_data0 == (const char *) PADARR && g_data_len == LASTLEN (ctx) && g_len0 == LASTLEN (ctx))
__CPROVER_requires (g_consumed == 0 && g_blocks == 0 && g_buffered == PENDING (ctx) && g_oldb == g_buffered && g_hash_swaps == 0)
__CPROVER_assigns (GH, ctx->len_low, ctx->len_high, __CPROVER_object_upto (ctx->buf.buf, sizeof (ctx->buf.buf)), __CPROVER_object_upto (ctx->hash, sizeof (ctx->hash)))
/* the padding appended is the first LASTLEN bytes of the pad table (0x80, 0, 0, ...): message ++ pad ends 8/16 bytes short of a block boundary */
__CPROVER_ensures (g_consumed == __CPROVER_old (g_data_len))
__CPROVER_ensures (g_blocks == (__CPROVER_old (g_oldb) < LEN_AT ? 1 : 2) && g_buffered == 0)
/* the last block ends with the message length in bits, in the standard's byte order */
__CPROVER_ensures (BITS_OK (__CPROVER_old (ctx->len_low), __CPROVER_old (ctx->len_high)))
/* the digest words are serialised by exactly one byte-order conversion over the digest words */
__CPROVER_ensures (g_hash_swap_words == (unsigned) HASH_WORDS (ctx))
;

#endif
void h_update (void) { CTX_T *c; const puchar *d; psize n; FN (update) (c, d, n); if (g_blocks == 0) CANARY ("buffered only"); if (g_blocks == 1) CANARY ("one block"); if (g_blocks > 2 && g_buffered > 0) CANARY ("many blocks and a tail"); if (n >= ((psize) 1 << 32)) CANARY ("4 GiB and more in one update"); }
#if !defined (ALG_SHA3)
void h_finish (void) { CTX_T *c; FN (finish) (c); if (g_blocks == 1) CANARY ("one padding block"); if (g_blocks == 2) CANARY ("two padding blocks"); }

/* ---- constant tables: padding and initial values, against the standards' literals */
void h_tables (void)
{
	unsigned k = nondet_uint (); __CPROVER_assume (k >= 1 && k < BLOCK);
	OBL (PADARR[0] == 0x80 && PADARR[k] == 0 && sizeof (PADARR) == BLOCK, "padding table = 0x80 followed by zeros, one block long");
	CTX_T *c = malloc (sizeof (CTX_T)); __CPROVER_assume (c != NULL);
#if defined (ALG_MD5)
	FN (reset) (c);
	OBL (c->hash[0] == 0x67452301u && c->hash[1] == 0xEFCDAB89u && c->hash[2] == 0x98BADCFEu && c->hash[3] == 0x10325476u, "MD5 initial value (RFC 1321)");
#elif defined (ALG_SHA1)
	FN (reset) (c);
	OBL (c->hash[0] == 0x67452301u && c->hash[1] == 0xEFCDAB89u && c->hash[2] == 0x98BADCFEu && c->hash[3] == 0x10325476u && c->hash[4] == 0xC3D2E1F0u, "SHA-1 initial value (FIPS 180-4)");
#elif defined (ALG_SHA256)
	c->is224 = FALSE; FN (reset) (c);
	OBL (c->hash[0] == 0x6A09E667u && c->hash[1] == 0xBB67AE85u && c->hash[2] == 0x3C6EF372u && c->hash[3] == 0xA54FF53Au &&
	     c->hash[4] == 0x510E527Fu && c->hash[5] == 0x9B05688Cu && c->hash[6] == 0x1F83D9ABu && c->hash[7] == 0x5BE0CD19u, "SHA-256 initial value (FIPS 180-4)");
	c->is224 = TRUE; FN (reset) (c);
	OBL (c->hash[0] == 0xC1059ED8u && c->hash[1] == 0x367CD507u && c->hash[2] == 0x3070DD17u && c->hash[3] == 0xF70E5939u &&
	     c->hash[4] == 0xFFC00B31u && c->hash[5] == 0x68581511u && c->hash[6] == 0x64F98FA7u && c->hash[7] == 0xBEFA4FA4u, "SHA-224 initial value (FIPS 180-4)");
#elif defined (ALG_SHA512)
	c->is384 = FALSE; FN (reset) (c);
	OBL (c->hash[0] == 0x6A09E667F3BCC908ull && c->hash[1] == 0xBB67AE8584CAA73Bull && c->hash[2] == 0x3C6EF372FE94F82Bull && c->hash[3] == 0xA54FF53A5F1D36F1ull &&
	     c->hash[4] == 0x510E527FADE682D1ull && c->hash[5] == 0x9B05688C2B3E6C1Full && c->hash[6] == 0x1F83D9ABFB41BD6Bull && c->hash[7] == 0x5BE0CD19137E2179ull, "SHA-512 initial value (FIPS 180-4)");
	c->is384 = TRUE; FN (reset) (c);
	OBL (c->hash[0] == 0xCBBB9D5DC1059ED8ull && c->hash[1] == 0x629A292A367CD507ull && c->hash[2] == 0x9159015A3070DD17ull && c->hash[3] == 0x152FECD8F70E5939ull &&
	     c->hash[4] == 0x67332667FFC00B31ull && c->hash[5] == 0x8EB44A8768581511ull && c->hash[6] == 0xDB0C2E0D64F98FA7ull && c->hash[7] == 0x47B5481DBEFA4FA4ull, "SHA-384 initial value (FIPS 180-4)");
#endif
	OBL (c->len_low == 0 && c->len_high == 0, "reset clears the length counter (nothing pending)");
	OBL (FN (digest) (c) == (const puchar *) c->hash, "digest = the chaining words in place");
	CANARY ("end");
}

/* ---- byte order of words (real swap_bytes, fixed 16-word bound) */
void h_swap_bytes (void)
{
	WORD_T w[16], o[16]; unsigned n = nondet_uint (), i = nondet_uint ();
	__CPROVER_assume (n <= 16 && i < n);
	for (unsigned k = 0; k < 16; k++) o[k] = w[k];
	PP (swap_bytes) (w, n);
	const unsigned char *b = (const unsigned char *) &w[i];
#if defined (ALG_MD5)
	/* little-endian serialisation */
	OBL (b[0] == (unsigned char) o[i] && b[1] == (unsigned char) (o[i] >> 8) && b[2] == (unsigned char) (o[i] >> 16) && b[3] == (unsigned char) (o[i] >> 24), "MD5 words are serialised little-endian");
#elif BLOCK == 64
	OBL (b[3] == (unsigned char) o[i] && b[2] == (unsigned char) (o[i] >> 8) && b[1] == (unsigned char) (o[i] >> 16) && b[0] == (unsigned char) (o[i] >> 24), "SHA words are serialised big-endian");
#else
	OBL (b[7] == (unsigned char) o[i] && b[6] == (unsigned char) (o[i] >> 8) && b[5] == (unsigned char) (o[i] >> 16) && b[4] == (unsigned char) (o[i] >> 24) &&
	     b[3] == (unsigned char) (o[i] >> 32) && b[2] == (unsigned char) (o[i] >> 40) && b[1] == (unsigned char) (o[i] >> 48) && b[0] == (unsigned char) (o[i] >> 56), "SHA-512 words are serialised big-endian");
#endif
	OBL (n == 16 || w[n < 16 ? n : 0] == o[n < 16 ? n : 0], "words beyond the count are left alone");
	CANARY ("end");
}
#endif
