/* C11 -- SHA-3 (FIPS 202) finish: the last block is pending-bytes ++ 0x06 ++ 0x00.. ++ 0x80 (domain bits 01 + pad10*1), exactly rate bytes,
 * absorbed once; rates and empty initial state. Physical buffer here (no memcpy involved), compression by contract. */
/* TRUSTED: Keccak-f permutation inside pp_crypto_hash_sha3_process = FIPS 202 -- ASSUMED (see alg_md.c); contract used: absorbs the block it is given */
#include "env/verif.h"
#include "env/alloc.c"
#include <string.h>
unsigned g_k; unsigned char g_seen; unsigned g_absorbs; const void *g_absorbed_ptr;
#include "pcryptohash-sha3.c"

static void pp_crypto_hash_sha3_process (PHashSHA3 *ctx, const puint64 *data)
__CPROVER_requires ((const void *) data == (const void *) ctx->buf.buf_w)
__CPROVER_assigns (__CPROVER_object_upto (ctx->hash, sizeof (ctx->hash)), g_seen, g_absorbs)
__CPROVER_ensures (g_absorbs == __CPROVER_old (g_absorbs) + 1 && g_seen == ((const unsigned char *) data)[g_k])
;
#define RATE_OK(ctx) (((ctx)->block_size == 144 || (ctx)->block_size == 136 || (ctx)->block_size == 104 || (ctx)->block_size == 72) && (ctx)->len < (ctx)->block_size)
void p_crypto_hash_sha3_finish (PHashSHA3 *ctx)
__CPROVER_requires (__CPROVER_is_fresh (ctx, sizeof (PHashSHA3)) && RATE_OK (ctx) && g_absorbs == 0 && g_k < ctx->block_size)
__CPROVER_assigns (__CPROVER_object_upto (ctx->buf.buf, sizeof (ctx->buf.buf)), __CPROVER_object_upto (ctx->hash, sizeof (ctx->hash)), g_seen, g_absorbs)
__CPROVER_ensures (g_absorbs == 1)
/* byte g_k of the absorbed block, for every g_k < rate: message byte / 0x06 / 0x00 / 0x80 (0x86 when the two coincide) */
__CPROVER_ensures (g_k < ctx->len ==> g_seen == __CPROVER_old (ctx->buf.buf[g_k]))
__CPROVER_ensures ((g_k == ctx->len && g_k != ctx->block_size - 1) ==> g_seen == 0x06)
__CPROVER_ensures ((g_k > ctx->len && g_k != ctx->block_size - 1) ==> g_seen == 0x00)
__CPROVER_ensures ((g_k == ctx->block_size - 1 && g_k != ctx->len) ==> g_seen == 0x80)
__CPROVER_ensures ((g_k == ctx->block_size - 1 && g_k == ctx->len) ==> g_seen == 0x86)
;
void h_finish (void) { PHashSHA3 *c; p_crypto_hash_sha3_finish (c); if (g_seen == 0x86) CANARY ("single padding byte"); if (g_seen == 0x06) CANARY ("domain byte"); if (g_seen == 0x80) CANARY ("final bit"); }

void h_new_reset (void)
{
	int which = nondet_int (); __CPROVER_assume (which >= 0 && which < 4);
	g_alloc_may_fail = 0;
	PHashSHA3 *c = which == 0 ? p_crypto_hash_sha3_224_new () : which == 1 ? p_crypto_hash_sha3_256_new () : which == 2 ? p_crypto_hash_sha3_384_new () : p_crypto_hash_sha3_512_new ();
	OBL (c != NULL, "context created");
	/* rate = (1600 - 2 * digest bits) / 8 bytes (FIPS 202) */
	OBL (c->block_size == (which == 0 ? 144u : which == 1 ? 136u : which == 2 ? 104u : 72u), "rate of the variant");
	unsigned i = nondet_uint (); __CPROVER_assume (i < 25);
	OBL (c->len == 0 && c->hash[i] == 0, "initial state: nothing pending, all-zero Keccak state");
	c->len = 5; c->hash[i] = 7;
	p_crypto_hash_sha3_reset (c);
	OBL (c->len == 0 && c->hash[i] == 0 && c->block_size == (which == 0 ? 144u : which == 1 ? 136u : which == 2 ? 104u : 72u), "reset restores the initial state and keeps the variant");
	OBL (p_crypto_hash_sha3_digest (c) == (const puchar *) c->hash, "digest = leading bytes of the state");
	p_crypto_hash_sha3_free (c);
	CANARY ("end");
}
