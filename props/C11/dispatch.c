/* C11 -- the dispatcher pcryptohash.c over call-log stubs of the six algorithm families
 * (each family's own functions are verified in the units of alg_*.c). */
/* TRUSTED: p_crypto_hash_<family>_{new,update,finish,digest,reset,free} (call-log stubs for the dispatcher units) -- record family, call counts and arguments; digest returns a pointer to 64 arbitrary bytes */
#include "env/verif.h"
#include "env/alloc.c"
#include "pcryptohash.h"
#include "pcryptohash-gost3411.h"
#include "pcryptohash-md5.h"
#include "pcryptohash-sha1.h"
#include "pcryptohash-sha2-256.h"
#include "pcryptohash-sha2-512.h"
#include "pcryptohash-sha3.h"

int g_fam_new, g_fam_update, g_fam_finish, g_fam_digest, g_fam_reset, g_fam_free;   /* family id seen by each entry */
unsigned g_n_new, g_n_update, g_n_finish, g_n_digest, g_n_reset, g_n_free;
unsigned g_finish_since_reset;
const void *g_upd_data; psize g_upd_len; void *g_ctx; _Bool g_ctx_live;
puchar g_digest_bytes[64];
#define FAM_NEW(name, T, id) \
	T *p_crypto_hash_##name##_new (void) { g_n_new++; g_fam_new = id; if (nondet_bool ()) return NULL; g_ctx = malloc (1); __CPROVER_assume (g_ctx != NULL); g_ctx_live = 1; g_finish_since_reset = 0; return (T *) g_ctx; }
#define FAM_OPS(name, T, id) \
	void p_crypto_hash_##name##_update (T *c, const puchar *d, psize n) { ENV_REQ ((void *) c == g_ctx && g_ctx_live, "update on the live context"); ENV_REQ (g_finish_since_reset == 0, "no update between finish and reset"); g_n_update++; g_fam_update = id; g_upd_data = d; g_upd_len = n; } \
	void p_crypto_hash_##name##_finish (T *c) { ENV_REQ ((void *) c == g_ctx && g_ctx_live, "finish on the live context"); ENV_REQ (g_finish_since_reset == 0, "digest finalised at most once between resets (reading it is repeatable)"); g_n_finish++; g_finish_since_reset++; g_fam_finish = id; } \
	const puchar *p_crypto_hash_##name##_digest (T *c) { ENV_REQ ((void *) c == g_ctx && g_ctx_live && g_finish_since_reset == 1, "digest read after finish"); g_n_digest++; g_fam_digest = id; return g_digest_bytes; } \
	void p_crypto_hash_##name##_reset (T *c) { ENV_REQ ((void *) c == g_ctx && g_ctx_live, "reset on the live context"); g_n_reset++; g_fam_reset = id; g_finish_since_reset = 0; } \
	void p_crypto_hash_##name##_free (T *c) { ENV_REQ ((void *) c == g_ctx && g_ctx_live, "context freed exactly once"); g_n_free++; g_fam_free = id; g_ctx_live = 0; free ((void *) c); }
/* new: one id per type; operations: one id per implementation group (224/256, 384/512 and the four SHA-3 share theirs) */
FAM_NEW (md5, PHashMD5, 1) FAM_NEW (sha1, PHashSHA1, 2) FAM_NEW (sha2_224, PHashSHA2_256, 3) FAM_NEW (sha2_256, PHashSHA2_256, 4)
FAM_NEW (sha2_384, PHashSHA2_512, 5) FAM_NEW (sha2_512, PHashSHA2_512, 6) FAM_NEW (sha3_224, PHashSHA3, 7) FAM_NEW (sha3_256, PHashSHA3, 8)
FAM_NEW (sha3_384, PHashSHA3, 9) FAM_NEW (sha3_512, PHashSHA3, 10) FAM_NEW (gost3411, PHashGOST3411, 11)
FAM_OPS (md5, PHashMD5, 101) FAM_OPS (sha1, PHashSHA1, 102) FAM_OPS (sha2_256, PHashSHA2_256, 103) FAM_OPS (sha2_512, PHashSHA2_512, 104)
FAM_OPS (sha3, PHashSHA3, 105) FAM_OPS (gost3411, PHashGOST3411, 106)
#include "pcryptohash.c"

/* standard digest lengths (RFC 1321, FIPS 180-4, FIPS 202, GOST R 34.11-94) and the family each type must dispatch to */
static int spec_len (PCryptoHashType t)
{
	switch (t) {
	case P_CRYPTO_HASH_TYPE_MD5: return 16; case P_CRYPTO_HASH_TYPE_SHA1: return 20;
	case P_CRYPTO_HASH_TYPE_SHA2_224: return 28; case P_CRYPTO_HASH_TYPE_SHA2_256: return 32; case P_CRYPTO_HASH_TYPE_SHA2_384: return 48; case P_CRYPTO_HASH_TYPE_SHA2_512: return 64;
	case P_CRYPTO_HASH_TYPE_SHA3_224: return 28; case P_CRYPTO_HASH_TYPE_SHA3_256: return 32; case P_CRYPTO_HASH_TYPE_SHA3_384: return 48; case P_CRYPTO_HASH_TYPE_SHA3_512: return 64;
	case P_CRYPTO_HASH_TYPE_GOST: return 32; default: return -1; }
}
static int spec_fam (PCryptoHashType t)
{
	switch (t) {
	case P_CRYPTO_HASH_TYPE_MD5: return 1; case P_CRYPTO_HASH_TYPE_SHA1: return 2; case P_CRYPTO_HASH_TYPE_SHA2_224: return 3; case P_CRYPTO_HASH_TYPE_SHA2_256: return 4;
	case P_CRYPTO_HASH_TYPE_SHA2_384: return 5; case P_CRYPTO_HASH_TYPE_SHA2_512: return 6; case P_CRYPTO_HASH_TYPE_SHA3_224: return 7; case P_CRYPTO_HASH_TYPE_SHA3_256: return 8;
	case P_CRYPTO_HASH_TYPE_SHA3_384: return 9; case P_CRYPTO_HASH_TYPE_SHA3_512: return 10; case P_CRYPTO_HASH_TYPE_GOST: return 11; default: return -1; }
}
static int spec_ops (PCryptoHashType t)
{
	switch (t) {
	case P_CRYPTO_HASH_TYPE_MD5: return 101; case P_CRYPTO_HASH_TYPE_SHA1: return 102; case P_CRYPTO_HASH_TYPE_SHA2_224: case P_CRYPTO_HASH_TYPE_SHA2_256: return 103;
	case P_CRYPTO_HASH_TYPE_SHA2_384: case P_CRYPTO_HASH_TYPE_SHA2_512: return 104;
	case P_CRYPTO_HASH_TYPE_SHA3_224: case P_CRYPTO_HASH_TYPE_SHA3_256: case P_CRYPTO_HASH_TYPE_SHA3_384: case P_CRYPTO_HASH_TYPE_SHA3_512: return 105;
	case P_CRYPTO_HASH_TYPE_GOST: return 106; default: return -1; }
}
static void reset_ghosts (void)
{
	g_n_new = g_n_update = g_n_finish = g_n_digest = g_n_reset = g_n_free = 0; g_finish_since_reset = 0; g_ctx_live = 0; g_ctx = NULL;
	g_allocs = g_frees = 0; g_alloc_failed = 0;
}
static char hexdigit (unsigned v) { return (char) (v < 10 ? '0' + v : 'a' + (v - 10)); }

/* a history over the real dispatcher: new, update, read (string), update-after-read, read again (digest), reset, update, free;
 * allocation may fail at every allocation */
void h_dispatch (void)
{
	PCryptoHashType t; puchar data[4]; psize len;
	reset_ghosts ();
	PCryptoHash *h = p_crypto_hash_new (t);
	if (spec_len (t) < 0) { OBL (h == NULL && g_n_new == 0 && g_allocs == 0, "unknown type: NULL, nothing created"); CANARY ("unknown type"); return; }
	if (h == NULL) { OBL (g_allocs == g_frees && !g_ctx_live, "failed new keeps nothing"); CANARY ("new failed"); return; }
	OBL (g_n_new == 1 && g_fam_new == spec_fam (t), "context of the requested algorithm");
	OBL (p_crypto_hash_get_length (h) == spec_len (t) && p_crypto_hash_get_type (h) == t, "digest length is the standard's for the type");
	__CPROVER_assume (len >= 1);
	p_crypto_hash_update (h, data, len);
	OBL (g_n_update == 1 && g_fam_update == spec_ops (t) && g_upd_data == (const void *) data && g_upd_len == len, "update forwards the caller's bytes, all of them, to the right algorithm");
	pchar *s = p_crypto_hash_get_string (h);
	OBL (g_n_finish == 1 && g_fam_finish == spec_ops (t), "reading the digest finalises once");
	if (s != NULL) {
		unsigned n = (unsigned) spec_len (t);
		unsigned i = nondet_uint (); __CPROVER_assume (i < n);
		OBL (s[2 * n] == 0, "hex string has exactly 2 * digest length characters");
		OBL (s[2 * i] == hexdigit (g_digest_bytes[i] >> 4) && s[2 * i + 1] == hexdigit (g_digest_bytes[i] & 15), "hex string = lower-case encoding of the raw digest, byte for byte");
		p_free (s);
		CANARY ("string read");
	} else CANARY ("string allocation failed");
	/* updates after the digest was read are ignored */
	p_crypto_hash_update (h, data, len);
	OBL (g_n_update == 1, "update after the digest was read is ignored until reset");
	/* reading again is repeatable: no second finalisation, same bytes */
	puchar out[64]; psize olen = nondet_size_t ();
	psize olen0 = olen;
	p_crypto_hash_get_digest (h, out, &olen);
	OBL (g_n_finish == 1, "second read does not finalise again");
	if (olen0 >= (psize) spec_len (t)) {
		unsigned j = nondet_uint (); __CPROVER_assume (j < (unsigned) spec_len (t));
		OBL (olen == (psize) spec_len (t) && out[j] == g_digest_bytes[j], "raw digest: standard length, same bytes as the string was made from");
		CANARY ("digest read");
	} else { OBL (olen == 0, "buffer too small: length 0 reported, nothing written beyond it"); CANARY ("digest buffer too small"); }
	pchar *s2 = p_crypto_hash_get_string (h);
	OBL (g_n_finish == 1, "third read does not finalise again");
	if (s2) p_free (s2);
	/* reset reopens */
	p_crypto_hash_reset (h);
	OBL (g_n_reset == 1 && g_fam_reset == spec_ops (t), "reset reaches the algorithm");
	p_crypto_hash_update (h, data, len);
	OBL (g_n_update == 2, "after reset updates count again");
	p_crypto_hash_free (h);
	OBL (g_n_free == 1 && !g_ctx_live && g_allocs == g_frees, "free releases context and object, nothing leaks");
	CANARY ("end");
}
void h_dispatch_null (void)
{
	reset_ghosts (); puchar b[4]; psize l = 4;
	p_crypto_hash_update (NULL, b, 4); p_crypto_hash_reset (NULL); p_crypto_hash_free (NULL);
	OBL (p_crypto_hash_get_string (NULL) == NULL && p_crypto_hash_get_length (NULL) == 0, "NULL hash");
	p_crypto_hash_get_digest (NULL, b, &l);
	OBL (l == 0 && g_n_update == 0 && g_n_finish == 0, "NULL hash: nothing called");
	CANARY ("end");
}
