LEVEL = "proof"
UNITS = [
    dict(id="dispatch", harness="dispatch.c", entry="h_dispatch", sources=["pcryptohash.c"], enforce=None, replace=[], canaries=7, timeout=600,
         cbmc_flags=["--unwind", "65", "--unwinding-assertions", "--object-bits", "10"],
         bound="hex conversion loop unwound to the largest digest length (64): complete, unwinding assertions on",
         functions=["p_crypto_hash_new", "p_crypto_hash_update", "p_crypto_hash_reset", "p_crypto_hash_get_string", "p_crypto_hash_get_digest", "p_crypto_hash_get_length", "p_crypto_hash_free", "pp_crypto_hash_digest_to_hex"]),
    dict(id="dispatch_null", harness="dispatch.c", entry="h_dispatch_null", sources=["pcryptohash.c"], enforce=None, replace=[], timeout=300,
         cbmc_flags=["--unwind", "65", "--unwinding-assertions"], functions=[]),
]
MD = {"md5": ("ALG_MD5", "pcryptohash-md5.c", "p_crypto_hash_md5_", "pp_crypto_hash_md5_"),
      "sha1": ("ALG_SHA1", "pcryptohash-sha1.c", "p_crypto_hash_sha1_", "pp_crypto_hash_sha1_"),
      "sha256": ("ALG_SHA256", "pcryptohash-sha2-256.c", "p_crypto_hash_sha2_256_", "pp_crypto_hash_sha2_256_"),
      "sha512": ("ALG_SHA512", "pcryptohash-sha2-512.c", "p_crypto_hash_sha2_512_", "pp_crypto_hash_sha2_512_")}
UPD_LOOP = ["__CPROVER_assigns(data, len, g_consumed, g_buffered, g_blocks, g_w14, g_w15, g_hash_swaps, g_hash_swap_words, __CPROVER_object_upto(ctx->buf.buf, sizeof(ctx->buf.buf)), __CPROVER_object_upto(ctx->hash, sizeof(ctx->hash)))",
            "__CPROVER_loop_invariant(len <= g_len0 && g_consumed + len == g_len0 && g_data_len == g_len0 && __CPROVER_same_object(data, g_data0) && (size_t) __CPROVER_POINTER_OFFSET(data) == g_consumed && "
            "g_buffered == left && (len < BLOCK || g_buffered == 0) && g_buffered < BLOCK && g_blocks * BLOCK + g_buffered + len == g_oldb + g_len0 && g_blocks <= g_consumed / BLOCK + 1)",
            "__CPROVER_decreases(len)"]
for a, (d, src, fn, pp) in MD.items():
    UNITS.append(dict(id=a + "_update", harness="alg_md.c", entry="h_update", sources=[src], enforce=fn + "update", replace=[pp + "process", pp + "swap_bytes"], defines=[d],
                      canaries=4, timeout=900, loops={src: {fn + "update": {"nloops": 1, "0": UPD_LOOP}}},
                      replay={"driver": "C11_replay.c", "mode": "update4g", "args": [], "fixed_args": ["alg=%d" % {"md5": 0, "sha1": 1, "sha256": 3, "sha512": 5}[a]], "timeout": 300, "sanitize": "undefined"}))
    UNITS.append(dict(id=a + "_finish", harness="alg_md.c", entry="h_finish", sources=[src], enforce=fn + "finish", replace=[fn + "update", pp + "process", pp + "swap_bytes"], defines=[d, "UNIT_FINISH"],
                      canaries=2, timeout=900))
    UNITS.append(dict(id=a + "_tables", harness="alg_md.c", entry="h_tables", sources=[src], enforce=None, replace=[], defines=[d], timeout=300, functions=[fn + "reset", fn + "digest"]))
    UNITS.append(dict(id=a + "_swap_bytes", harness="alg_md.c", entry="h_swap_bytes", sources=[src], enforce=None, replace=[], defines=[d], timeout=300, functions=[pp + "swap_bytes"],
                      cbmc_flags=["--unwind", "17", "--unwinding-assertions"], bound="word loop unwound to the fixed 16-word block: complete, unwinding assertions on"))
for bs in (144, 136, 104, 72):   # SHA3-224/256/384/512 rates; one unit per rate keeps the divisor constant for the SAT solver
    UNITS.append(dict(id="sha3_update_%d" % bs, harness="alg_md.c", entry="h_update", sources=["pcryptohash-sha3.c"], enforce="p_crypto_hash_sha3_update",
                      replace=["pp_crypto_hash_sha3_process", "pp_crypto_hash_sha3_swap_bytes"], defines=["ALG_SHA3", "SHA3_BS=%d" % bs], canaries=4, timeout=1200,
                      cbmc_flags=["--sat-solver", "cadical"],
                      loops={"pcryptohash-sha3.c": {"p_crypto_hash_sha3_update": {"nloops": 1, "0": UPD_LOOP}}}))
UNITS.append(dict(id="sha3_finish", harness="alg_sha3_fin.c", entry="h_finish", sources=["pcryptohash-sha3.c"], enforce="p_crypto_hash_sha3_finish",
                  replace=["pp_crypto_hash_sha3_process"], canaries=3, timeout=900, cbmc_flags=["--sat-solver", "cadical"]))
UNITS.append(dict(id="sha3_new_reset", harness="alg_sha3_fin.c", entry="h_new_reset", sources=["pcryptohash-sha3.c"], enforce=None, replace=[], timeout=600,
                  functions=["p_crypto_hash_sha3_224_new", "p_crypto_hash_sha3_256_new", "p_crypto_hash_sha3_384_new", "p_crypto_hash_sha3_512_new", "p_crypto_hash_sha3_reset"]))
G = "pcryptohash-gost3411.c"
GOST_LOOP = ["__CPROVER_assigns(data, len, g_consumed, g_buffered, g_blocks, g_len_adds, g_sum_adds, g_add_lo, g_add_hi, g_add_rest_zero, __CPROVER_object_upto(ctx->buf, 32), __CPROVER_object_upto(ctx->hash, 32), __CPROVER_object_upto(ctx->sum, 32))",
             "__CPROVER_loop_invariant(len <= g_len0 && g_consumed + len == g_len0 && g_data_len == g_len0 && __CPROVER_same_object(data, g_data0) && (size_t) __CPROVER_POINTER_OFFSET(data) == g_consumed && "
             "g_buffered == left && (len < 32 || g_buffered == 0) && g_buffered < 32 && g_blocks * 32 + g_buffered + len == g_oldb + g_len0 && g_blocks <= g_consumed / 32 + 1 && "
             "g_sum_adds == g_blocks && g_len_adds == 1 && g_add_lo == (puint32) (g_len0 << 3) && g_add_hi == (puint32) (g_len0 >> 29) && g_add_rest_zero == 1)",
             "__CPROVER_decreases(len)"]
UNITS.append(dict(id="gost_sum_256", harness="alg_gost.c", entry="h_sum_256", sources=[G], enforce=None, replace=[], defines=["UNIT_SUM"], timeout=600,
                  cbmc_flags=["--unwind", "9", "--unwinding-assertions"], bound="fixed 8-limb loops: complete, unwinding assertions on", functions=["pp_crypto_hash_gost3411_sum_256"],
                  replay={"driver": "C11_gost_replay.c", "mode": "sum", "args": [], "sources": {"all_except": ["pcryptohash-gost3411.c"]}}))
UNITS.append(dict(id="gost_update", harness="alg_gost.c", entry="h_update", sources=[G], enforce="p_crypto_hash_gost3411_update",
                  replace=["pp_crypto_hash_gost3411_process", "pp_crypto_hash_gost3411_sum_256"], defines=["UNIT_UPDATE"], canaries=4, timeout=900,
                  loops={G: {"p_crypto_hash_gost3411_update": {"nloops": 1, "0": GOST_LOOP}}},
                  replay={"driver": "C11_replay.c", "mode": "update4g", "args": [], "fixed_args": ["alg=10"], "timeout": 600, "sanitize": "undefined"}))
UNITS.append(dict(id="gost_finish", harness="alg_gost.c", entry="h_finish", sources=[G], enforce="p_crypto_hash_gost3411_finish",
                  replace=["pp_crypto_hash_gost3411_process", "pp_crypto_hash_gost3411_sum_256"], defines=["UNIT_FINISH"], canaries=2, timeout=900))
UNITS.append(dict(id="gost_reset", harness="alg_gost.c", entry="h_reset", sources=[G], enforce=None, replace=[], defines=["UNIT_FINISH"], timeout=300, functions=["p_crypto_hash_gost3411_reset"]))
# constructors: a new context of every variant equals its reset state (units shared with C18, where the allocation-failure exit matters)
def _hash_ctx_units():
    algs = [("md5", "pcryptohash-md5.c", "PHashMD5", "p_crypto_hash_md5"), ("sha1", "pcryptohash-sha1.c", "PHashSHA1", "p_crypto_hash_sha1"),
            ("sha2_256", "pcryptohash-sha2-256.c", "PHashSHA2_256", "p_crypto_hash_sha2_256"), ("sha2_224", "pcryptohash-sha2-256.c", "PHashSHA2_256", "p_crypto_hash_sha2_224"),
            ("sha2_512", "pcryptohash-sha2-512.c", "PHashSHA2_512", "p_crypto_hash_sha2_512"), ("sha2_384", "pcryptohash-sha2-512.c", "PHashSHA2_512", "p_crypto_hash_sha2_384"),
            ("sha3_224", "pcryptohash-sha3.c", "PHashSHA3", "p_crypto_hash_sha3_224"), ("sha3_256", "pcryptohash-sha3.c", "PHashSHA3", "p_crypto_hash_sha3_256"),
            ("sha3_384", "pcryptohash-sha3.c", "PHashSHA3", "p_crypto_hash_sha3_384"), ("sha3_512", "pcryptohash-sha3.c", "PHashSHA3", "p_crypto_hash_sha3_512"),
            ("gost3411", "pcryptohash-gost3411.c", "PHashGOST3411", "p_crypto_hash_gost3411")]
    fam = {"sha2_224": "p_crypto_hash_sha2_256", "sha2_384": "p_crypto_hash_sha2_512", "sha3_224": "p_crypto_hash_sha3", "sha3_256": "p_crypto_hash_sha3", "sha3_384": "p_crypto_hash_sha3", "sha3_512": "p_crypto_hash_sha3"}
    out = []
    for a, src, ty, new in algs:
        f = fam.get(a, new)
        out.append(dict(id="new_" + a, harness="../C18/misc2.c", entry="h_hash_ctx", sources=[src], enforce=None, replace=[], timeout=300, canaries=2,
                        defines=["UNIT_HASH_CTX", 'ALG_SRC="%s"' % src, "ALG_TYPE=" + ty, "ALG_NEW=%s_new" % new, "ALG_FREE=%s_free" % f, "ALG_RESET=%s_reset" % f],
                        functions=[new + "_new", f + "_free"], cbmc_flags=["--unwind", "100", "--unwinding-assertions"],
                        bound="fixed-size initialisation loops fully unwound: complete, unwinding assertions on"))
    return out
UNITS += _hash_ctx_units()
TECHNIQUE = "CBMC contracts on the real pcryptohash*.c: dispatcher history over call-log stubs; per algorithm the buffering/length/padding logic with the compression function replaced by a block-order contract"
LEVEL_TEXT = ("Dispatcher (real pcryptohash.c, history over call-log stubs): standard digest length per type, right family, update forwarded whole, one finalisation between resets, "
              "repeatable reads, updates after a read ignored until reset, lower-case hex of the raw digest, no leak. Per family (MD5, SHA-1, SHA-2 224/256, SHA-2 384/512, SHA-3 x4, GOST) on the "
              "real source: update consumes every byte of the caller's data exactly once and in order, appends behind the pending bytes, compresses exactly full blocks (stream discipline "
              "checked call by call in the memcpy/compression contracts => the block sequence is the chunking of pending++data, independent of how the input is split into updates), for "
              "every pending count and every len < 2^55 including >= 2^32; the length counter grows by exactly len; finish appends the standard padding and bit length in the standard's byte "
              "order (SHA-3: 0x06..0x80 incl. the 0x86 corner; GOST: zero padding, length block, checksum block, checksum = exact 256-bit sum); initial values and byte-order conversion "
              "against the standards' literals. Loops closed by injected loop contracts; fixed-size loops (hex, 16-word swaps, 8-limb sums) fully unwound with unwinding assertions.")
LEVEL_NOTE = ("ASSUMED, not proved: the compression functions (MD5/SHA round functions, Keccak-f, GOST step with the CryptoPro S-box) equal the standards' -- every installed solver fails on "
              "that equivalence (DESIGN.md section 2); they are replaced by block-order contracts and are exercised round by round by the published vectors in pcryptohash_test. "
              "Trusted: memcpy stream model (bytes copied faithfully), allocator model. len bounded at 2^55 by CBMC's pointer-offset width. SHA-3 update is proved per rate (4 units).")
