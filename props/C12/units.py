import os, sys, importlib.util
_p = os.path.join(os.path.dirname(os.path.abspath(__file__)), "..", "trees", "treeunits.py")
_s = importlib.util.spec_from_file_location("treeunits", _p); tu = importlib.util.module_from_spec(_s); _s.loader.exec_module(tu)
LEVEL = "model_checking"
UNITS = list(tu.UNITS)
# the initial state of the map: a new tree is empty and counts 0 (unit shared with C18, where its allocation-failure exit matters)
UNITS.append(dict(id="tree_new", harness="../C18/misc2.c", entry="h_tree_new", sources=["ptree.c", "ptree-bst.c", "ptree-rb.c", "ptree-avl.c"], enforce=None, replace=[], defines=["UNIT_TREE_NEW"], canaries=2, timeout=300,
                  functions=["p_tree_new_full", "p_tree_free"], cbmc_flags=["--unwind", "4", "--unwinding-assertions", "--object-bits", "10"]))
UNITS += tu.ROT_UNITS
UNITS += tu.SEQ_UNITS
REQUIRE_CONFIGURED = ["ptree.c", "ptree-bst.c", "ptree-rb.c", "ptree-avl.c"]
TECHNIQUE = "BOUNDED stand-in (not an unbounded proof): CBMC on the real ptree*.c from every well-formed tree up to a height bound (BST/ptree.c: 3 quick, 4 thorough; RB/AVL: 2 quick, 3 thorough), one symbolic operation, full re-validation; unwinding assertions on.  UNBOUNDED part: the six rotation functions (loop-free) on a symbolic node window with subtrees of any size and ghost height (units rot_*)"
LEVEL_TEXT = ("C12 focus: sorted-map view (membership/value of a ghost probe key, count, ascending traversal, early stop leaves the tree unchanged, clear). Heap-shape induction is not expressible in CBMC contracts (no inductive heap predicates), so the per-operation step is checked from EVERY well-formed tree "
              "within the height bound (symbolic shape, keys, values, colours/balance factors, parent links, with and without notifiers, allocation failure included) rather than for all sizes: "
              "one symbolic insert/remove/lookup/foreach(any stop point)/clear on the real code, then the whole result is re-validated. Since every reachable tree is well-formed, "
              "this is invariant preservation for all operation sequences whose trees stay within the bound. Counted as bounded model checking, never as proved. Exception, unbounded: units rot_* verify pp_tree_rb_rotate_left/right and pp_tree_avl_rotate_left/right/left_right/right_left for every window (hanging subtrees of any size with ghost heights, any node above): exact post-shape = in-order sequence preserved, all parent links, root pointer / child slot above, frame; AVL: stored balance factors equal the real height differences afterwards, under the preconditions of the call sites.")
LEVEL_NOTE = ("Bounded: tree height (see bound per unit in the evidence). Keys are integers under the identity order (every finite total order embeds); comparator user data is passed through "
              "but not interpreted. Units *_sequence run a three-call history (lookup; insert or remove through any key object; lookup) on one tree object, so that state one operation leaves behind for the next is seen; longer histories are not explored. The logarithmic-depth corollaries of the AVL/red-black invariants are textbook mathematics, not machine-checked. Trusted: allocator model.")
