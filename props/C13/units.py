import os, sys, importlib.util
_p = os.path.join(os.path.dirname(os.path.abspath(__file__)), "..", "trees", "treeunits.py")
_s = importlib.util.spec_from_file_location("treeunits", _p); tu = importlib.util.module_from_spec(_s); _s.loader.exec_module(tu)
LEVEL = "model_checking"
# the ptree.c walkers (lookup / foreach / clear) carry only C12 obligations and are the slowest units at the thorough bound: they run under C12
UNITS = [u for u in tu.UNITS if u["id"].endswith("_insert") or u["id"].endswith("_remove")]
# C13 only: the balance step at height 3 already in the quick tier (red-black / AVL fix-up cases that need a grandparent or a
# nephew do not occur in trees of height 2).  Structural obligations only (-DBALANCE_ONLY), three cases run in parallel.
for _tr in ("rb", "avl"):
    for _op, _entry, _can in (("insert", "h_insert", 3), ("remove", "h_remove", 2)):
        for _sp in (0, 1, 2):
            UNITS.append(tu.T("%s_%s_h3_case%d" % (_tr, _op, _sp), _entry, _tr, canaries=(_can - 1 if (_op == "insert" and _sp == 0) else _can),
                              defines=["TREE_" + _tr.upper(), "BALANCE_ONLY", "SPLIT=%d" % _sp], defines_quick=["H=3"], defines_thorough=["H=3"],
                              cbmc_flags_quick=["--unwind", "9"], cbmc_flags_thorough=["--unwind", "9"],
                              bound="any valid %s tree of height <= 3 (<= 7 nodes), one %s, case %d of 3 by the position of the key relative to the root; no notifiers, structural obligations only" % (_tr, _op, _sp),
                              functions=[]))
UNITS += tu.ROT_UNITS
UNITS += tu.STEP_UNITS
REQUIRE_CONFIGURED = ["ptree.c", "ptree-bst.c", "ptree-rb.c", "ptree-avl.c"]
TECHNIQUE = "BOUNDED stand-in (not an unbounded proof): CBMC on the real ptree*.c from every well-formed tree up to a height bound (BST/ptree.c: 3 quick, 4 thorough; RB/AVL full units: 2 quick, 3 thorough; RB/AVL structural units: 3 in both tiers), one symbolic operation, full re-validation; unwinding assertions on.  UNBOUNDED part: the six rotation functions (loop-free) on a symbolic node window with subtrees of any size and ghost height (units rot_*), and one step of the real AVL retrace loops on a symbolic window (units avl_*_step_*)"
LEVEL_TEXT = ("C13 focus: after every insert/remove the red-black invariant (root black, no red-red, equal black height) resp. the AVL invariant (stored balance factor = height difference, within -1..1) holds. Heap-shape induction is not expressible in CBMC contracts (no inductive heap predicates), so the per-operation step is checked from EVERY well-formed tree "
              "within the height bound (symbolic shape, keys, values, colours/balance factors, parent links, with and without notifiers, allocation failure included) rather than for all sizes: "
              "one symbolic insert/remove/lookup/foreach(any stop point)/clear on the real code, then the whole result is re-validated. Since every reachable tree is well-formed, "
              "this is invariant preservation for all operation sequences whose trees stay within the bound. Counted as bounded model checking, never as proved. Exception, unbounded: units rot_* verify pp_tree_rb_rotate_left/right and pp_tree_avl_rotate_left/right/left_right/right_left for every window (hanging subtrees of any size with ghost heights, any node above): exact post-shape = in-order sequence preserved, all parent links, root pointer / child slot above, frame; AVL: stored balance factors equal the real height differences afterwards, under the preconditions of the call sites. Units avl_insert_step_* / avl_remove_step_*_case0: one step of the real pp_tree_avl_balance_insert/_remove at a node P for subtrees of any height (window opaque below, P the root where the loop would go on): all stored factors = real height differences within -1..1 afterwards, window height kept exactly when the loop stops; the induction over the path is a meta-argument; the rotation cases of the removal step are not registered (solver memory).")
LEVEL_NOTE = ("Bounded: tree height (see bound per unit in the evidence). The *_h3_case* units (quick and thorough) check search order, parent links, count and the balance invariant from every valid RB/AVL tree of height <= 3 without notifiers; the full units (all obligations) reach height 3 only in the thorough tier. Keys are integers under the identity order (every finite total order embeds); comparator user data is passed through "
              "but not interpreted. The logarithmic-depth corollaries of the AVL/red-black invariants are textbook mathematics, not machine-checked. Trusted: allocator model.")
