import os, sys, importlib.util
_p = os.path.join(os.path.dirname(os.path.abspath(__file__)), "..", "trees", "treeunits.py")
_s = importlib.util.spec_from_file_location("treeunits", _p); tu = importlib.util.module_from_spec(_s); _s.loader.exec_module(tu)
LEVEL = "model_checking"
# the ptree.c walkers (lookup / foreach) carry only C12 (and, for clear, C14) obligations and are the slowest units at the thorough bound: they run under C12; clear stays here for its notifier obligations
UNITS = [u for u in tu.UNITS if u["id"].endswith("_insert") or u["id"].endswith("_remove") or u["id"] in ("clear", "rb_clear")]
# the constructor records exactly the notifiers it was given (unit shared with C12/C18)
UNITS.append(dict(id="tree_new", harness="../C18/misc2.c", entry="h_tree_new", sources=["ptree.c", "ptree-bst.c", "ptree-rb.c", "ptree-avl.c"], enforce=None, replace=[], defines=["UNIT_TREE_NEW"], canaries=2, timeout=300,
                  functions=["p_tree_new_full", "p_tree_free"], cbmc_flags=["--unwind", "4", "--unwinding-assertions", "--object-bits", "10"]))
# removal of a node with two children from any valid RB / AVL tree of height <= 3, with notifiers, already in the quick tier (the full units reach height 3 only in the thorough tier)
for _tr in ("rb", "avl"):
    UNITS.append(tu.T("%s_remove_h3_two_children" % _tr, "h_remove", _tr, canaries=2, defines=["TREE_" + _tr.upper(), "TWO_CHILD_ROOT"], defines_quick=["H=3"], defines_thorough=["H=3"],
                      cbmc_flags_quick=["--unwind", "9"], cbmc_flags_thorough=["--unwind", "9"], timeout=1200,
                      bound="any valid %s tree of height <= 3 (<= 7 nodes) whose root has two children; the root's key is removed; notifiers, key objects and values symbolic" % _tr, functions=[]))
REQUIRE_CONFIGURED = ["ptree.c", "ptree-bst.c", "ptree-rb.c", "ptree-avl.c"]
TECHNIQUE = "BOUNDED stand-in (not an unbounded proof): CBMC on the real ptree*.c from every well-formed tree up to a height bound (BST/ptree.c: 3 quick, 4 thorough; RB/AVL: 2 quick, 3 thorough; removal of a two-children root at height 3 in both tiers), one symbolic operation, full re-validation; unwinding assertions on"
LEVEL_TEXT = ("C14 focus: the destroy notifiers receive exactly the pair that leaves the tree (replaced, removed, cleared), never a stored pair; nothing without notifiers. Heap-shape induction is not expressible in CBMC contracts (no inductive heap predicates), so the per-operation step is checked from EVERY well-formed tree "
              "within the height bound (symbolic shape, keys, values, colours/balance factors, parent links, with and without notifiers, allocation failure included) rather than for all sizes: "
              "one symbolic insert/remove/lookup/foreach(any stop point)/clear on the real code, then the whole result is re-validated. Since every reachable tree is well-formed, "
              "this is invariant preservation for all operation sequences whose trees stay within the bound. Counted as bounded model checking, never as proved.")
LEVEL_NOTE = ("Bounded: tree height (see bound per unit in the evidence). Keys are integers under the identity order (every finite total order embeds); comparator user data is passed through "
              "but not interpreted. The logarithmic-depth corollaries of the AVL/red-black invariants are textbook mathematics, not machine-checked. Trusted: allocator model.")
