/* C15 -- phashtable.c and plist.c.  Bucket function: contract for ALL 2^64 pointer values (loop-free: unbounded).
 * Table/list operations: bounded stand-in -- any well-formed table/list with at most L entries (symbolic keys incl. NULL,
 * all-ones, colliding keys), one symbolic operation, result compared with the map/sequence model through ghost indices. */
#include "env/verif.h"
#include "env/alloc.c"
#ifdef LISTING_STUB
/* listing units: p_list_append by its sequence contract (result = seq ++ [d], proved in unit list_append_prepend), as a log */
#include "plist.h"
ppointer g_out[8]; unsigned g_nout; PList g_out_list;
PList *p_list_append (PList *l, ppointer d) { ENV_REQ (l == NULL ? g_nout == 0 : l == &g_out_list, "appends to the list being built"); if (g_nout < 8) g_out[g_nout] = d; g_nout++; return &g_out_list; }
#else
#include "plist.c"
#endif
#include "phashtable.c"
#ifndef L
#define L 4
#endif

unsigned __CPROVER_uninterpreted_bucket (pconstpointer);
static puint pp_hash_table_calc_hash (pconstpointer pointer, psize modulo)
__CPROVER_requires (modulo == P_HASH_TABLE_SIZE)
__CPROVER_assigns ()
__CPROVER_ensures (__CPROVER_return_value < P_HASH_TABLE_SIZE)     /* every pointer value lands in a bucket; no undefined behaviour on the way (overflow checks on) */
#ifdef BUCKET_BY_CONTRACT
/* used by replacement in the table units: the bucket is SOME deterministic function of the pointer with range < 101
 * (the real one is pure C arithmetic, hence deterministic; its range is what unit calc_hash proves) -- this removes six
 * 64-bit '% 101' circuits from every table unit */
__CPROVER_ensures (__CPROVER_return_value == __CPROVER_uninterpreted_bucket (pointer))
#endif
;
void h_calc_hash (void) { pconstpointer p; psize m; puint r = pp_hash_table_calc_hash (p, m); if (r == 0) CANARY ("bucket 0"); if (r == 100) CANARY ("bucket 100"); }

/* ---- model */
ppointer g_mk[L + 1], g_mv[L + 1]; unsigned g_mn;
static PHashTable *build_table (void)
{
	g_alloc_may_fail = 0;
	PHashTable *t = p_hash_table_new (); __CPROVER_assume (t != NULL);
	g_mn = nondet_uint (); __CPROVER_assume (g_mn <= L);
	for (unsigned i = 0; i < L; i++) if (i < g_mn) {
		g_mk[i] = nondet_ptr (); g_mv[i] = nondet_ptr ();
		for (unsigned j = 0; j < L; j++) if (j < i) __CPROVER_assume (g_mk[j] != g_mk[i]);     /* a map: distinct keys */
		PHashTableNode *n = malloc (sizeof (PHashTableNode)); __CPROVER_assume (n != NULL);
		puint b = pp_hash_table_calc_hash (g_mk[i], t->size);
		__CPROVER_assume (b < P_HASH_TABLE_SIZE);
		n->key = g_mk[i]; n->value = g_mv[i]; n->next = t->table[b]; t->table[b] = n;
	}
	g_alloc_may_fail = nondet_bool (); g_alloc_failed = 0;
	return t;
}
static _Bool model_get (pconstpointer k, ppointer *v) { for (unsigned i = 0; i < L; i++) if (i < g_mn && g_mk[i] == k) { *v = g_mv[i]; return 1; } return 0; }
#define NOT_FOUND ((ppointer) (-1))

void h_insert (void)
{
	PHashTable *t = build_table ();
	ppointer k = nondet_ptr (), v = nondet_ptr (), q = nondet_ptr (), mv = NULL; 
	_Bool had = model_get (k, &mv); ppointer qv = NULL; _Bool qhad = model_get (q, &qv);
	p_hash_table_insert (t, k, v);
	ppointer r = p_hash_table_lookup (t, q);
	if (!had && g_alloc_failed) { OBL (r == (qhad ? qv : NOT_FOUND), "insert under allocation failure: map unchanged"); CANARY ("alloc failed"); }
	else {
		OBL (r == (q == k ? v : (qhad ? qv : NOT_FOUND)), "insert adds or overwrites exactly that key; every other key keeps its binding; absent keys give the not-found marker");
		if (had) CANARY ("overwrite"); else CANARY ("new key");
	}
}
void h_remove (void)
{
	PHashTable *t = build_table ();
	ppointer k = nondet_ptr (), q = nondet_ptr (), mv = NULL, qv = NULL; _Bool had = model_get (k, &mv), qhad = model_get (q, &qv);
	g_frees = 0;
	p_hash_table_remove (t, k);
	OBL (g_frees == (had ? 1u : 0u), "remove releases exactly the node of that key");
	ppointer r = p_hash_table_lookup (t, q);
	OBL (r == ((q != k && qhad) ? qv : NOT_FOUND), "remove deletes only that key (also among keys sharing its bucket)");
	if (had) CANARY ("removed"); else CANARY ("absent");
}
/* two-step histories on one table object: observer, update, observer -- state that an operation leaves behind for the next one
 * (a "last node" cache, a lazily kept counter) is invisible to the one-operation units, which start from a freshly built object */
void h_sequence (void)
{
	PHashTable *t = build_table ();
	ppointer k1 = nondet_ptr (), k2 = nondet_ptr (), v = nondet_ptr (), v1 = NULL, v2 = NULL; _Bool had1 = model_get (k1, &v1), had2 = model_get (k2, &v2);
	ppointer r1 = p_hash_table_lookup (t, k1);
	OBL (r1 == (had1 ? v1 : NOT_FOUND), "history: first lookup gives the stored value or the not-found marker");
	_Bool do_insert = nondet_bool ();
	g_alloc_failed = 0;
	if (do_insert) p_hash_table_insert (t, k2, v); else p_hash_table_remove (t, k2);
	_Bool took = do_insert && (had2 || !g_alloc_failed);
	ppointer r2 = p_hash_table_lookup (t, k1);
	OBL (r2 == (k1 == k2 ? (do_insert ? (took ? v : NOT_FOUND) : NOT_FOUND) : (had1 ? v1 : NOT_FOUND)), "history: a lookup after an insert/remove sees the update (and only the update), whatever was looked up before");
	ppointer r3 = p_hash_table_lookup (t, k2);
	OBL (r3 == (do_insert ? (took ? v : NOT_FOUND) : NOT_FOUND), "history: the updated key itself reads back as updated");
	/* and once more the other way round: remove what was just inserted / insert what was just removed */
	if (do_insert) p_hash_table_remove (t, k2); else { g_alloc_failed = 0; p_hash_table_insert (t, k2, v); }
	ppointer r4 = p_hash_table_lookup (t, k2);
	OBL (r4 == (do_insert ? NOT_FOUND : ((!g_alloc_failed) ? v : NOT_FOUND)), "history: insert after remove / remove after insert of the same key");
	if (k1 == k2 && had1 && do_insert) CANARY ("overwrite after a hit"); if (k1 == k2 && had1 && !do_insert) CANARY ("remove after a hit"); if (k1 == k2 && !had1 && took) CANARY ("insert after a miss");
}
/* for the listing functions (which never call the bucket function) the entries are spread in any way over three concrete
 * buckets (first, middle, last): every other bucket is concretely empty, which keeps the 101-iteration scans cheap */
static PHashTable *build_table_listing (void)
{
	g_alloc_may_fail = 0;
	PHashTable *t = p_hash_table_new (); __CPROVER_assume (t != NULL);
	g_mn = nondet_uint (); __CPROVER_assume (g_mn <= L);
	for (unsigned i = 0; i < L; i++) if (i < g_mn) {
		g_mk[i] = nondet_ptr (); g_mv[i] = nondet_ptr ();
		for (unsigned j = 0; j < L; j++) if (j < i) __CPROVER_assume (g_mk[j] != g_mk[i]);
		PHashTableNode *n = malloc (sizeof (PHashTableNode)); __CPROVER_assume (n != NULL);
		n->key = g_mk[i]; n->value = g_mv[i];
#ifdef ONE_BUCKET
		unsigned c = 0;      /* every entry in the first bucket: one chain, the other 100 buckets concretely empty */
#else
		unsigned c = nondet_uint ();
#endif
		if (c % 3 == 0) { n->next = t->table[0]; t->table[0] = n; }
		else if (c % 3 == 1) { n->next = t->table[57]; t->table[57] = n; }
		else { n->next = t->table[100]; t->table[100] = n; }
	}
	return t;
}
#ifdef LISTING_STUB
#ifndef LIST_WHICH
#define LIST_WHICH 0
#endif
void h_keys_values (void)
{
	PHashTable *t = build_table_listing (); g_alloc_may_fail = 0; g_nout = 0;
	unsigned i = nondet_uint (); __CPROVER_assume (i < g_mn);
	unsigned cmv = 0, cnt = 0;
	for (unsigned j = 0; j < L; j++) if (j < g_mn && g_mv[j] == g_mv[i]) cmv++;
#if LIST_WHICH == 0
	PList *r = p_hash_table_keys (t);
	for (unsigned q = 0; q < 8; q++) if (q < g_nout && g_out[q] == g_mk[i]) cnt++;
	OBL (g_nout == g_mn && cnt == 1 && r == (g_mn ? &g_out_list : NULL), "keys lists exactly the stored keys, each once");
#elif LIST_WHICH == 1
	PList *r = p_hash_table_values (t);
	for (unsigned q = 0; q < 8; q++) if (q < g_nout && g_out[q] == g_mv[i]) cnt++;
	OBL (g_nout == g_mn && cnt == cmv, "values lists every stored value as often as it is stored");
#else
	PList *r = p_hash_table_lookup_by_value (t, g_mv[i], NULL);
	for (unsigned q = 0; q < 8; q++) if (q < g_nout && g_out[q] == g_mk[i]) cnt++;
	OBL (g_nout == cmv && cnt == 1, "lookup_by_value lists exactly the keys bound to that value");
#endif
	if (g_mn == L) CANARY ("full");
}
#endif
#ifndef LISTING_STUB
/* C18: the listing functions under allocation failure (real plist.c, every p_list_append may fail independently): no invalid access,
 * at most the stored entries are listed, every listed item is a stored one, and every list node that was allocated is part of the
 * returned list -- so releasing the result releases everything (a failed append loses that item, never the nodes around it) */
#ifndef LIST_WHICH
#define LIST_WHICH 0
#endif
void h_listing_allocfail (void)
{
	/* a table object of 2 buckets (the scan is generic in table->size; 101 buckets with an allocating loop body did not get through symbolic execution) */
	g_alloc_may_fail = 0;
	PHashTable *t = malloc (sizeof (PHashTable)); __CPROVER_assume (t != NULL);
	t->size = 2; t->table = malloc (2 * sizeof (PHashTableNode *)); __CPROVER_assume (t->table != NULL);
	t->table[0] = t->table[1] = NULL;
	g_mn = nondet_uint (); __CPROVER_assume (g_mn <= L);
	for (unsigned e = 0; e < L; e++) if (e < g_mn) {
		g_mk[e] = nondet_ptr (); g_mv[e] = nondet_ptr ();
		for (unsigned j = 0; j < L; j++) if (j < e) __CPROVER_assume (g_mk[j] != g_mk[e]);
		PHashTableNode *nd = malloc (sizeof (PHashTableNode)); __CPROVER_assume (nd != NULL);
		nd->key = g_mk[e]; nd->value = g_mv[e];
		if (nondet_bool ()) { nd->next = t->table[0]; t->table[0] = nd; } else { nd->next = t->table[1]; t->table[1] = nd; }
	}
	unsigned i = nondet_uint (); __CPROVER_assume (i < L && (LIST_WHICH != 2 || i < g_mn));
	g_alloc_may_fail = 1; g_alloc_failed = 0;
	unsigned long a0 = g_allocs, f0 = g_frees;
#if LIST_WHICH == 0
	PList *r = p_hash_table_keys (t);
#elif LIST_WHICH == 1
	PList *r = p_hash_table_values (t);
#else
	PList *r = p_hash_table_lookup_by_value (t, g_mv[i], NULL);
#endif
	unsigned n = 0; unsigned j = nondet_uint (); ppointer item_j = NULL; _Bool have_j = 0;
	for (PList *c = r; c != NULL && n <= L; c = c->next) { if (n == j) { item_j = c->data; have_j = 1; } n++; }
	OBL (n <= g_mn, "listing under allocation failure: never more items than stored entries");
	OBL (g_allocs - a0 == n, "listing under allocation failure: every list node that was allocated is part of the returned list");
	OBL (g_frees == f0, "listing under allocation failure: nothing is released behind the caller's back");
#if LIST_WHICH != 2
	OBL (g_alloc_failed || n == g_mn, "listing without an allocation failure is complete");
#endif
	if (have_j) { _Bool stored = 0; for (unsigned q = 0; q < L; q++) if (q < g_mn && (LIST_WHICH == 1 ? g_mv[q] : g_mk[q]) == item_j) stored = 1; OBL (stored, "listing under allocation failure: every listed item is a stored one"); }
	p_list_free (r);
	OBL (g_allocs - a0 == g_frees - f0, "listing under allocation failure: releasing the result releases everything the call allocated");
	if (g_alloc_failed && n >= 1 && n < g_mn) CANARY ("an append in the middle failed"); if (!g_alloc_failed && n == L) CANARY ("complete listing of a full table");
}
/* the listing functions once more with the REAL plist.c (no log stub) on a table object of 3 buckets: the result is an ordinary list
 * whose items are exactly the stored keys / values / keys bound to a value -- however the function links the nodes together */
void h_listing_real (void)
{
	g_alloc_may_fail = 0;
	PHashTable *t = malloc (sizeof (PHashTable)); __CPROVER_assume (t != NULL);
	t->size = 3; t->table = malloc (3 * sizeof (PHashTableNode *)); __CPROVER_assume (t->table != NULL);
	t->table[0] = t->table[1] = t->table[2] = NULL;
	g_mn = nondet_uint (); __CPROVER_assume (g_mn <= L);
	for (unsigned e = 0; e < L; e++) if (e < g_mn) {
		g_mk[e] = nondet_ptr (); g_mv[e] = nondet_ptr ();
		for (unsigned j = 0; j < L; j++) if (j < e) __CPROVER_assume (g_mk[j] != g_mk[e]);
		PHashTableNode *nd = malloc (sizeof (PHashTableNode)); __CPROVER_assume (nd != NULL);
		nd->key = g_mk[e]; nd->value = g_mv[e];
		unsigned b = nondet_uint (); __CPROVER_assume (b < 3);
		nd->next = t->table[b]; t->table[b] = nd;
	}
	unsigned i = nondet_uint (); __CPROVER_assume (i < g_mn);
	unsigned long a0 = g_allocs;
#if LIST_WHICH == 0
	PList *r = p_hash_table_keys (t);
#elif LIST_WHICH == 1
	PList *r = p_hash_table_values (t);
#else
	PList *r = p_hash_table_lookup_by_value (t, g_mv[i], NULL);
#endif
	unsigned n = 0, cnt = 0, cmv = 0;
	for (unsigned j = 0; j < L; j++) if (j < g_mn && g_mv[j] == g_mv[i]) cmv++;
	for (PList *c = r; c != NULL && n <= L; c = c->next) { if (c->data == (LIST_WHICH == 1 ? g_mv[i] : g_mk[i])) cnt++; n++; }
#if LIST_WHICH == 0
	OBL (n == g_mn && cnt == 1, "keys lists exactly the stored keys, each once (real list)");
#elif LIST_WHICH == 1
	OBL (n == g_mn && cnt == cmv, "values lists every stored value as often as it is stored (real list)");
#else
	OBL (n == cmv && cnt == 1, "lookup_by_value lists exactly the keys bound to that value (real list)");
#endif
	OBL (g_allocs - a0 == n, "listing: one list node per listed item, all of them in the returned list");
	if (g_mn == L) CANARY ("full");
}
void h_table_null (void)
{
	ppointer k = nondet_ptr ();
	p_hash_table_insert (NULL, k, k); p_hash_table_remove (NULL, k); p_hash_table_free (NULL);
	OBL (p_hash_table_lookup (NULL, k) == NULL && p_hash_table_keys (NULL) == NULL && p_hash_table_values (NULL) == NULL && p_hash_table_lookup_by_value (NULL, k, NULL) == NULL, "NULL table");
	CANARY ("end");
}

/* ---- lists */
ppointer g_seq[L + 2]; unsigned g_sn; PList *g_nodes[L + 2];
static PList *build_list (void)
{
	g_sn = nondet_uint (); __CPROVER_assume (g_sn <= L);
	PList *head = NULL;
	for (int i = L - 1; i >= 0; i--) if ((unsigned) i < g_sn) {
		PList *n = malloc (sizeof (PList)); __CPROVER_assume (n != NULL);
		g_seq[i] = nondet_ptr (); n->data = g_seq[i]; n->next = head; head = n; g_nodes[i] = n;
	}
	g_alloc_may_fail = nondet_bool (); g_alloc_failed = 0; g_frees = 0;
	return head;
}
static ppointer nth (PList *l, unsigned i) { for (unsigned k = 0; l != NULL && k <= L + 1; k++, l = l->next) if (k == i) return l->data; return NOT_FOUND; }
void h_list_append_prepend (void)
{
	PList *l = build_list (); ppointer d = nondet_ptr (); _Bool app = nondet_bool ();
	unsigned i = nondet_uint (); __CPROVER_assume (i <= g_sn);
	PList *r = app ? p_list_append (l, d) : p_list_prepend (l, d);
	if (g_alloc_failed) { OBL (r == l && p_list_length (r) == g_sn, "allocation failure: the list is returned unchanged"); CANARY ("alloc failed"); }
	else {
		OBL (p_list_length (r) == g_sn + 1, "one element more");
		OBL (nth (r, i) == (app ? (i == g_sn ? d : g_seq[i]) : (i == 0 ? d : g_seq[i - 1])), "append = seq ++ [d], prepend = [d] ++ seq");
		if (app) CANARY ("appended"); else CANARY ("prepended");
	}
	p_list_free (r);
}
void h_list_remove (void)
{
	PList *l = build_list (); ppointer d = nondet_ptr ();
	unsigned first = g_sn; for (int i = L - 1; i >= 0; i--) if ((unsigned) i < g_sn && g_seq[i] == d) first = (unsigned) i;
	unsigned i = nondet_uint (); __CPROVER_assume (i < g_sn);
	PList *r = p_list_remove (l, d);
	if (first < g_sn) {
		OBL (p_list_length (r) == g_sn - 1 && g_frees == 1, "exactly one node leaves and is released");
		if (i + 1 < g_sn) OBL (nth (r, i) == (i < first ? g_seq[i] : g_seq[i + 1]), "the FIRST occurrence is deleted, everything else stays in order");
		CANARY ("removed");
	} else { OBL (r == l && p_list_length (r) == g_sn && g_frees == 0 && nth (r, i) == g_seq[i], "absent value: unchanged"); CANARY ("absent"); }
	p_list_free (r);
}
unsigned g_fe_n; ppointer g_fe[L + 2];
static void fe_cb (ppointer d, ppointer u) { (void) u; if (g_fe_n <= L) g_fe[g_fe_n] = d; g_fe_n++; }
void h_list_reverse_last_foreach (void)
{
	PList *l = build_list ();
	unsigned i = nondet_uint (); __CPROVER_assume (i < g_sn);
	PList *la = p_list_last (l);
	OBL (g_sn == 0 ? la == NULL : (la == g_nodes[g_sn - 1] && la->data == g_seq[g_sn - 1]), "last = final node");
	OBL (p_list_length (l) == g_sn, "length");
	g_fe_n = 0; p_list_foreach (l, fe_cb, NULL);
	OBL (g_fe_n == g_sn && g_fe[i] == g_seq[i], "foreach visits every element once, in order");
	PList *r = p_list_reverse (l);
	OBL (p_list_length (r) == g_sn && nth (r, i) == g_seq[g_sn - 1 - i] && g_frees == 0, "reverse: element i becomes element n-1-i, no node lost or released");
	p_list_free (r);
	OBL (g_frees == g_sn, "free releases every node exactly once");
	OBL (p_list_reverse (NULL) == NULL && p_list_last (NULL) == NULL && p_list_length (NULL) == 0 && p_list_remove (NULL, NULL) == NULL, "empty list");
	if (g_sn == L) CANARY ("full length");
}
#endif

/* ---- free: every node of every chain, the bucket array and the table object are released exactly once.  The loop of
 * p_hash_table_free runs over table->size buckets; the unit uses a table object of 3 buckets (the real 101 buckets with
 * symbolic chains did not finish in 15 minutes), every distribution of at most L nodes over them. */
#ifndef LISTING_STUB
void h_table_free (void)
{
	PHashTable *t = malloc (sizeof (PHashTable)); __CPROVER_assume (t != NULL);
	t->size = 3; t->table = malloc (3 * sizeof (PHashTableNode *)); __CPROVER_assume (t->table != NULL);
	t->table[0] = t->table[1] = t->table[2] = NULL;
	unsigned nodes = nondet_uint (); __CPROVER_assume (nodes <= L);
	for (unsigned i = 0; i < L; i++) if (i < nodes) {
		PHashTableNode *n = malloc (sizeof (PHashTableNode)); __CPROVER_assume (n != NULL);
		unsigned b = nondet_uint (); __CPROVER_assume (b < 3);
		n->key = nondet_ptr (); n->value = nondet_ptr (); n->next = t->table[b]; t->table[b] = n;
	}
	g_frees = 0;
	p_hash_table_free (t);
	OBL (g_frees == nodes + 2, "free releases every node, the bucket array and the table object, each exactly once (pointer checks: no block twice)");
	if (nodes >= 2) CANARY ("several entries");
	CANARY ("end");
}
#endif
