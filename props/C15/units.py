LEVEL = "model_checking"
S = ["phashtable.c", "plist.c"]
def U(id, entry, **kw):
    d = dict(id=id, harness="ht.c", entry=entry, sources=S, enforce=None, replace=["pp_hash_table_calc_hash"], defines=["BUCKET_BY_CONTRACT"], timeout=900, timeout_thorough=3600, functions=[],
             defines_quick=["L=4"], defines_thorough=["L=6"], cbmc_flags=["--unwind", "103", "--unwinding-assertions", "--object-bits", "10"],
             bound={"quick": "tables/lists with at most 4 entries (any keys, any collisions), one operation", "thorough": "at most 6 entries"})
    d.update(kw); return d
UNITS = [
    dict(id="calc_hash", harness="ht.c", entry="h_calc_hash", sources=S, enforce="pp_hash_table_calc_hash", replace=[], canaries=2, timeout=300,
         replay={"driver": "C15_replay.c", "mode": "hash", "args": ["p", "pointer"], "sanitize": "undefined"}),
    U("insert", "h_insert", canaries=3, functions=["p_hash_table_insert", "p_hash_table_lookup", "pp_hash_table_find_node", "p_hash_table_new"], cbmc_flags=["--unwind", "9", "--unwinding-assertions", "--object-bits", "10"]),
    U("table_free", "h_table_free", canaries=2, functions=["p_hash_table_free"], defines_quick=["L=3"], defines_thorough=["L=4"],
      cbmc_flags=["--unwind", "7", "--unwinding-assertions", "--object-bits", "10"],
      bound={"quick": "a table object of 3 buckets holding at most 3 nodes in any distribution", "thorough": "3 buckets, at most 4 nodes"}),
    U("sequence", "h_sequence", canaries=3, functions=[], defines_quick=["L=2"], defines_thorough=["L=4"], cbmc_flags=["--unwind", "9", "--unwinding-assertions", "--object-bits", "10"],
      bound={"quick": "tables with at most 2 entries; lookup / insert-or-remove / lookup / the opposite update / lookup with any two keys", "thorough": "at most 4 entries, same history"}),
    U("remove", "h_remove", canaries=2, functions=["p_hash_table_remove"], cbmc_flags=["--unwind", "9", "--unwinding-assertions", "--object-bits", "10"]),
] + [U(n, "h_keys_values", replace=[], defines=["LIST_WHICH=%d" % w, "LISTING_STUB"], functions=[f], defines_quick=["L=2"], defines_thorough=["L=3"], timeout=600, timeout_thorough=3600,
          bound={"quick": "tables with at most 2 entries spread over 3 buckets", "thorough": "at most 3 entries spread over 3 buckets (4 entries: more than 80 minutes per unit under load)"},
          # per-loop bounds: bucket scan 101 iterations, chain / list loops L
          cbmc_flags=["--unwinding-assertions", "--object-bits", "10", "--unwind", "9", "--unwindset", f + ".1:103"])
       for w, (n, f) in enumerate((("keys", "p_hash_table_keys"), ("values", "p_hash_table_values"), ("lookup_by_value", "p_hash_table_lookup_by_value")))] + [
] + [U(n + "_real_list", "h_listing_real", replace=[], defines=["LIST_WHICH=%d" % w], functions=[], canaries=1, defines_quick=["L=4"], defines_thorough=["L=4"], timeout=600, timeout_thorough=3600,
          bound="a table object of 3 buckets holding at most 4 entries in any distribution, real plist.c (6 entries: keys/values did not finish in 20 minutes)",
          cbmc_flags=["--unwinding-assertions", "--object-bits", "10", "--unwind", "9"])
       for w, n in enumerate(("keys", "values", "lookup_by_value"))] + [
    U("table_null", "h_table_null"),
    U("list_append_prepend", "h_list_append_prepend", replace=[], defines=[], canaries=3, cbmc_flags=["--unwind", "9", "--unwinding-assertions", "--object-bits", "10"], functions=["p_list_append", "p_list_prepend", "p_list_length", "p_list_free"]),
    U("list_remove", "h_list_remove", replace=[], defines=[], canaries=2, cbmc_flags=["--unwind", "9", "--unwinding-assertions", "--object-bits", "10"], functions=["p_list_remove"]),
    U("list_reverse_last_foreach", "h_list_reverse_last_foreach", replace=[], defines=[], canaries=1, cbmc_flags=["--unwind", "9", "--unwinding-assertions", "--object-bits", "10"], functions=["p_list_reverse", "p_list_last", "p_list_foreach"]),
]
REQUIRE_CONFIGURED = S
TECHNIQUE = "bucket function: CBMC function contract for all 2^64 pointer values (unbounded, loop-free); table and list operations: BOUNDED stand-in (<= L entries, L=4 quick / 6 thorough) against the map / sequence model, unwinding assertions on"
LEVEL_TEXT = ("pp_hash_table_calc_hash under contract for every pointer value: bucket < 101, no undefined behaviour (signed overflow check). Table operations from ANY well-formed table "
              "with at most L entries (symbolic keys incl. NULL / all-ones / same-bucket keys, built through the real bucket function) and list operations from any list of length <= L: "
              "insert/overwrite, remove-only-that-key, lookup with the (ppointer)-1 marker, keys/values/lookup_by_value as exact listings; append/prepend/remove-first-occurrence/reverse/last/"
              "length/foreach/free as sequence operations, allocation failure included. An inductive list predicate is not expressible in CBMC contracts, hence the bound; counted as bounded model checking.")
LEVEL_NOTE = "Bounded by the number of entries (see bound). Trusted: allocator model. lookup_by_value with a user comparator is checked for the NULL (identity) comparator only. Units *_real_list run the listing functions with the real plist.c on a table object of 3 buckets (the scan is generic in table->size); unit sequence runs a five-call history (lookup, update, lookup, opposite update, lookup) on one table object, so that state left behind by one operation for the next is seen."
