/* C16 -- pinifile.c / pstring.c, BOUNDED: file of at most INI_LINES lines of at most INI_LINE_MAX bytes (any bytes),
 * strings of the pre-built objects at most 3 characters.  Robustness: no memory error on any content, consistent object.
 * Grammar: the documented forms of a key/value line on templates within the bound. */
#include "env/verif.h"
#include "env/alloc.c"
#include "env/perror_stub.c"
#include "env/errno_stub.c"
#include "env/stdio_ini.c"
PErrorIO p_error_get_last_io (void) { return P_ERROR_IO_FAILED; }
/* TRUSTED: p_list_foreach (model, this unit only) -- pinifile.c passes a one-argument function cast to the two-argument PFunc type; CBMC's function-pointer removal finds no candidate for a call through the mismatching type, so the traversal is modelled with the callee's real arity; plist.c's own p_list_foreach is verified in C15 */
#define p_list_foreach real_p_list_foreach
#include "plist.c"
#undef p_list_foreach
void p_list_foreach (PList *list, PFunc func, ppointer user_data) { (void) user_data; for (PList *c = list; c != NULL; c = c->next) ((void (*) (ppointer)) func) (c->data); }
/* TRUSTED: atoi (call-log stub: C's decimal conversion, result not interpreted except that text without a leading sign or digit gives 0) -- the integer and boolean getters are required to hand exactly the stored text to atoi, which IS the documented conversion */
unsigned g_atoi_calls; char g_atoi_arg[8]; int g_atoi_result;
int atoi (const char *s) { g_atoi_calls++; for (unsigned i = 0; i < 7; i++) { g_atoi_arg[i] = s[i]; if (s[i] == 0) break; } g_atoi_arg[7] = 0; g_atoi_result = nondet_int ();
	/* the one fact of C's atoi that the boolean words depend on: text that does not start (after blanks) with a sign or a digit converts to 0 */
	unsigned j = 0; while (j < 6 && (s[j] == ' ' || (s[j] >= 9 && s[j] <= 13))) j++;
	if (!(s[j] == '+' || s[j] == '-' || (s[j] >= '0' && s[j] <= '9'))) g_atoi_result = 0;
	return g_atoi_result; }
#include "pstring.c"
#include "pinifile.c"
#define M INI_LINE_MAX
#ifndef TEMPLATE
#define TEMPLATE 0
#endif
#ifndef GETTER
#define GETTER 0
#endif

/* ---- p_strchomp against its specification, every string of length <= M */
void h_strchomp (void)
{
	char s[M + 1]; for (unsigned q = 0; q < M; q++) s[q] = (char) nondet_uchar (); s[M] = 0;
	g_alloc_may_fail = 1; g_alloc_failed = 0; g_allocs = g_frees = 0;
	pchar *r = p_strchomp (s);
	unsigned n = 0; while (s[n] != 0) n++;
	unsigned a = 0; while (a < n && isspace ((unsigned char) s[a])) a++;          /* first non-blank */
	unsigned b = n; while (b > a && isspace ((unsigned char) s[b - 1])) b--;      /* one past the last non-blank */
	if (r == NULL) { OBL (g_alloc_failed && g_allocs == g_frees, "NULL only on allocation failure, nothing kept"); CANARY ("alloc failed"); return; }
	unsigned i = nondet_uint (); __CPROVER_assume (b == a || i < b - a);
	OBL (r[b - a] == 0 && (b == a || r[i] == s[a + i]), "result = the text between the first and the last non-blank character, NUL-terminated");
	OBL (g_allocs == g_frees + 1, "exactly the result is allocated");
	if (b - a == 0) CANARY ("blank or empty string"); if (a > 0 && b < n) CANARY ("trimmed on both sides");
	p_free (r);
	OBL (p_strchomp (NULL) == NULL, "NULL => NULL");
}

/* ---- parse: any file content within the bound */
static unsigned list_len (PList *l) { unsigned n = 0; for (; l != NULL && n <= 4; l = l->next) n++; return n; }
void h_parse_robust (void)
{
#ifdef ROBUST_AFTER_SECTION
	g_file_nlines = 2; g_file_lines[0][0] = '['; g_file_lines[0][1] = 's'; g_file_lines[0][2] = ']'; g_file_lines[0][3] = 0;   /* a section header, then ANY line */
	for (unsigned q = 0; q < INI_LINE_MAX; q++) g_file_lines[1][q] = (char) nondet_uchar ();
	g_file_lines[1][INI_LINE_MAX] = 0;
#else
	g_file_nlines = nondet_uint (); __CPROVER_assume (g_file_nlines <= 1);   /* empty file or one line of ANY bytes */
	for (unsigned q = 0; q < INI_LINE_MAX; q++) g_file_lines[0][q] = (char) nondet_uchar ();
	g_file_lines[0][INI_LINE_MAX] = 0;
#endif
	g_alloc_may_fail = nondet_bool (); g_alloc_failed = 0; g_allocs = g_frees = 0; g_fopens = g_fcloses = 0;
	char path[2] = "p";
	PIniFile *f = p_ini_file_new (path);
	if (f == NULL) { OBL (g_allocs == g_frees, "failed new keeps nothing"); CANARY ("new failed"); return; }
	pboolean ok = p_ini_file_parse (f, NULL);
	OBL (!g_file_open && g_fopens == 1 && g_fcloses == (ok ? 1u : 0u), "the file is opened once and closed again");
	if (ok) {
		OBL (p_ini_file_is_parsed (f) == TRUE, "parsed flag");
		/* consistency: every listed section has at least one key; every key has a name and a value */
		PList *s = f->sections; unsigned idx = nondet_uint (); __CPROVER_assume (idx < 2);
		if (idx == 1 && s != NULL) s = s->next;
		if (s != NULL) {
			PIniSection *sec = s->data;
			OBL (sec != NULL && sec->name != NULL && sec->keys != NULL, "every listed section has a name and at least one key");
			PIniParameter *p0 = sec->keys->data;
			OBL (p0 != NULL && p0->name != NULL && p0->value != NULL, "every listed key has a retrievable value");
			CANARY ("section with a key");
		}
		if (f->sections == NULL) CANARY ("nothing parsed");
	} else CANARY ("open failed");
	p_ini_file_free (f);
#ifdef ALLOC_STRICT
	OBL (g_allocs == g_frees, "C18/C20: whichever allocation failed during parsing, nothing stays allocated once the object is freed");
#else
	OBL (g_alloc_failed || g_allocs == g_frees, "everything allocated while parsing is released with the object (allocation failures aside: see C18)");
#endif
}

/* ---- documented grammar on templates: "[s]" then one key line */
#define SET_LINE(l, str) do { const char *q_ = (str); unsigned k_ = 0; for (; q_[k_] != 0; k_++) g_file_lines[l][k_] = q_[k_]; g_file_lines[l][k_] = 0; } while (0)
static const char *value_of (PIniFile *f) { if (f->sections == NULL) return NULL; PIniSection *s = f->sections->data; if (s->keys == NULL) return NULL; return ((PIniParameter *) s->keys->data)->value; }
static int str_eq (const char *a, const char *b) { unsigned i = 0; for (; a[i] != 0 && b[i] != 0; i++) if (a[i] != b[i]) return 0; return a[i] == b[i]; }
void h_parse_grammar (void)
{
	g_alloc_may_fail = 0; g_file_nlines = 2;
	SET_LINE (0, "[s]");
	int t = TEMPLATE;   /* one unit per template: fully concrete input */
	const char *expect;
	switch (t) {
	case 0: SET_LINE (1, "k = v ; c");   expect = "v";  break;   /* trailing comment and blanks removed */
	case 1: SET_LINE (1, "k=\"a;b\" #c"); expect = "a;b"; break;  /* comment marker inside quotes kept, quotes removed */
	case 2: SET_LINE (1, "k = 'x y'");   expect = "x y"; break;  /* single quotes */
	case 3: SET_LINE (1, "k = \"\"  ;c"); expect = "";   break;   /* empty quoted value followed by a comment */
	case 4: SET_LINE (1, "k = a=b");     expect = "a=b"; break;  /* text after the FIRST '=' */
	case 5: SET_LINE (1, "k=''");        expect = "";   break;   /* empty single-quoted value */
	/* byte-order marks in front of the first line are skipped (documented grammar: BOMs) */
	case 6: SET_LINE (0, "\xEF\xBB\xBF[s]"); SET_LINE (1, "k=v"); expect = "v"; break;   /* UTF-8 */
	case 7: SET_LINE (0, "\xFE\xFF[s]");     SET_LINE (1, "k=v"); expect = "v"; break;   /* UTF-16 BE */
	case 8: SET_LINE (0, "\xFF\xFE[s]");     SET_LINE (1, "k=v"); expect = "v"; break;   /* UTF-16 LE */
	/* a repeated key: the last assignment wins; a line before any section and a comment line contribute nothing */
	default: SET_LINE (0, "x=1"); SET_LINE (1, "[s]"); SET_LINE (2, "k=a"); SET_LINE (3, ";k=c"); SET_LINE (4, "k=b"); g_file_nlines = 5; expect = "b"; break;
	}
	char path[2] = "p";
	PIniFile *f = p_ini_file_new (path);
	__CPROVER_assume (f != NULL);
	pboolean ok = p_ini_file_parse (f, NULL);
	if (ok) {
		const char *v = value_of (f);
		OBL (v != NULL, "the section and its key are reported");
		if (v != NULL) OBL (str_eq (v, expect), "value = text after the first '=', blanks, one pair of quotes and a trailing comment removed");
		PIniSection *s = f->sections != NULL ? f->sections->data : NULL;
		if (s != NULL) OBL (str_eq (s->name, "s") && str_eq (((PIniParameter *) s->keys->data)->name, "k"), "section and key names trimmed");
		CANARY ("parsed");
	}
	p_ini_file_free (f);
}

/* ---- getters over a small parsed object: exact key match, first entry of a repeated key wins (= last assignment), defaults */
static pchar *mk_str (void) { pchar *s = malloc (4); __CPROVER_assume (s != NULL); s[3] = 0; return s; }
void h_getters (void)
{
	g_alloc_may_fail = 0;
	PIniFile *f = malloc (sizeof (PIniFile)); PIniSection *sec = malloc (sizeof (PIniSection)); PIniParameter *p1 = malloc (sizeof (PIniParameter)), *p2 = malloc (sizeof (PIniParameter));
	PList *ls = malloc (sizeof (PList)), *k1 = malloc (sizeof (PList)), *k2 = malloc (sizeof (PList));
	__CPROVER_assume (f && sec && p1 && p2 && ls && k1 && k2);
	f->path = NULL; f->is_parsed = TRUE; f->sections = ls; ls->data = sec; ls->next = NULL;
	sec->name = mk_str (); sec->keys = k1; k1->data = p1; k1->next = k2; k2->data = p2; k2->next = NULL;
	p1->name = mk_str (); p1->value = mk_str (); p2->name = mk_str (); p2->value = mk_str ();
	pchar *qs = mk_str (), *qk = mk_str ();
	_Bool sec_match = str_eq (sec->name, qs), m1 = str_eq (p1->name, qk), m2 = str_eq (p2->name, qk);
	char def[2] = "d";
	pchar *r = p_ini_file_parameter_string (f, qs, qk, def);
	const char *want = !sec_match ? def : m1 ? p1->value : m2 ? p2->value : def;
	OBL (r != NULL && str_eq (r, want), "string getter: value of the EXACTLY matching key in the matching section (first listed = last assigned), else the default");
	OBL ((p_ini_file_is_key_exists (f, qs, qk) != FALSE) == (sec_match && (m1 || m2)), "is_key_exists agrees with the getters");
	if (sec_match && m1) CANARY ("first key"); if (sec_match && !m1 && m2) CANARY ("second key"); if (!sec_match) CANARY ("default");
	/* boolean forms */
	pboolean b = p_ini_file_parameter_boolean (f, qs, qk, TRUE);
	if (sec_match && m1 && str_eq (p1->value, "TRU")) {}   /* 3-character bound: full words checked below on a fixed object */
	p_free (r);
}
void h_getters_words (void)
{
	g_alloc_may_fail = 0;
	PIniFile *f = malloc (sizeof (PIniFile)); PIniSection *sec = malloc (sizeof (PIniSection)); PIniParameter *p1 = malloc (sizeof (PIniParameter));
	PList *ls = malloc (sizeof (PList)), *k1 = malloc (sizeof (PList));
	__CPROVER_assume (f && sec && p1 && ls && k1);
	f->path = NULL; f->is_parsed = TRUE; f->sections = ls; ls->data = sec; ls->next = NULL; sec->name = "s"; sec->keys = k1; k1->data = p1; k1->next = NULL; p1->name = "k";
	int t = TEMPLATE;
	p1->value = t == 0 ? "true" : t == 1 ? "TRUE" : t == 2 ? "false" : t == 3 ? "FALSE" : "{a bc  d}";
	if (t < 4) { OBL ((p_ini_file_parameter_boolean (f, "s", "k", t >= 2 ? TRUE : FALSE) != FALSE) == (t < 2), "boolean getter: true/TRUE/false/FALSE"); CANARY ("boolean words"); }
	else {
		PList *l = p_ini_file_parameter_list (f, "s", "k");
		OBL (list_len (l) == 3 && str_eq (l->data, "a") && str_eq (l->next->data, "bc") && str_eq (l->next->next->data, "d"), "list getter: blank-separated items between braces");
		CANARY ("list");
	}
	OBL (p_ini_file_parameter_boolean (f, "s", "zz", TRUE) == TRUE && p_ini_file_parameter_int (f, "x", "k", 42) == 42 && p_ini_file_parameter_list (f, "s", "zz") == NULL, "missing key or section: the default");
}

/* the boolean getter alone on a fixed object, one unit per documented word (the combined words unit above costs an hour under load) */
void h_getter_boolean_word (void)
{
	g_alloc_may_fail = 0;
	PIniFile *f = malloc (sizeof (PIniFile)); PIniSection *sec = malloc (sizeof (PIniSection)); PIniParameter *p1 = malloc (sizeof (PIniParameter));
	PList *ls = malloc (sizeof (PList)), *k1 = malloc (sizeof (PList));
	__CPROVER_assume (f && sec && p1 && ls && k1);
	f->path = NULL; f->is_parsed = TRUE; f->sections = ls; ls->data = sec; ls->next = NULL; sec->name = "s"; sec->keys = k1; k1->data = p1; k1->next = NULL; p1->name = "k";
	int t = TEMPLATE;
	p1->value = t == 0 ? "true" : t == 1 ? "TRUE" : t == 2 ? "false" : "FALSE";
	pboolean r = p_ini_file_parameter_boolean (f, "s", "k", t >= 2 ? TRUE : FALSE);     /* the default is the opposite of the stored word */
	OBL ((r != FALSE) == (t < 2), "boolean getter: the words true / TRUE / false / FALSE, whatever the default");
	CANARY ("end");
}

/* ---- C18/C20: the allocating getters with every allocation allowed to fail, on a fixed parsed object
 * ([s] k = {a b}): whatever fails, the result is usable (NULL or a list/string), and once the caller has released the
 * result nothing that the getter allocated remains. */
static void free_str_list (PList *l) { for (PList *c = l; c != NULL; c = c->next) p_free (c->data); p_list_free (l); }
void h_getters_allocfail (void)
{
	g_alloc_may_fail = 0;
	PIniFile *f = malloc (sizeof (PIniFile)); PIniSection *sec = malloc (sizeof (PIniSection)); PIniParameter *p1 = malloc (sizeof (PIniParameter));
	PList *ls = malloc (sizeof (PList)), *k1 = malloc (sizeof (PList));
	__CPROVER_assume (f && sec && p1 && ls && k1);
	f->path = NULL; f->is_parsed = TRUE; f->sections = ls; ls->data = sec; ls->next = NULL; sec->name = "s"; sec->keys = k1; k1->data = p1; k1->next = NULL; p1->name = "k";
	p1->value = "{a b}";
	g_alloc_may_fail = 1; g_alloc_failed = 0; g_allocs = g_frees = 0;
#if GETTER == 0
	PList *l = p_ini_file_sections (f); if (l != NULL) CANARY ("listed"); free_str_list (l);
#elif GETTER == 1
	PList *l = p_ini_file_keys (f, "s"); if (l != NULL) CANARY ("listed"); free_str_list (l);
#elif GETTER == 2
	pchar *r = p_ini_file_parameter_string (f, "s", "k", NULL); if (r != NULL) CANARY ("string copied"); p_free (r);
#elif GETTER == 3
	PList *l = p_ini_file_parameter_list (f, "s", "k"); if (list_len (l) == 2) CANARY ("two items"); free_str_list (l);
#elif GETTER == 5
	/* C16: the shortest list there is: one item of one character */
	g_alloc_may_fail = 0; p1->value = "{c}";
	PList *l = p_ini_file_parameter_list (f, "s", "k");
	OBL (list_len (l) == 1 && str_eq (l->data, "c"), "list getter: a single one-character item is a list");
	if (list_len (l) == 1) CANARY ("one item"); free_str_list (l);
#else
	/* C16: list conversion, allocation never fails: a longer item followed by shorter ones, repeated blanks */
	g_alloc_may_fail = 0; p1->value = "{abc d  ef}";
	PList *l = p_ini_file_parameter_list (f, "s", "k");
	OBL (list_len (l) == 3 && str_eq (l->data, "abc") && str_eq (l->next->data, "d") && str_eq (l->next->next->data, "ef"), "list getter: the blank-separated items between the braces, each exactly as written");
	if (list_len (l) == 3) CANARY ("three items"); free_str_list (l);
#endif
	OBL (g_allocs == g_frees, "C18/C20 getter: whichever allocation failed, nothing the getter allocated remains once its result is released");
#if GETTER < 4
	if (g_alloc_failed) CANARY ("an allocation failed");
#else
	CANARY ("end");
#endif
}

/* ---- numeric getters: the integer getter is atoi of the stored text (decimal, leading zeros are not octal, no 0x), the
 * boolean getter falls back to "atoi of the text > 0"; missing keys give the default without any conversion */
void h_getters_numeric (void)
{
	g_alloc_may_fail = 0;
	PIniFile *f = malloc (sizeof (PIniFile)); PIniSection *sec = malloc (sizeof (PIniSection)); PIniParameter *p1 = malloc (sizeof (PIniParameter));
	PList *ls = malloc (sizeof (PList)), *k1 = malloc (sizeof (PList));
	__CPROVER_assume (f && sec && p1 && ls && k1);
	f->path = NULL; f->is_parsed = TRUE; f->sections = ls; ls->data = sec; ls->next = NULL; sec->name = "s"; sec->keys = k1; k1->data = p1; k1->next = NULL; p1->name = "k";
	char v[4] = "010";          /* concrete text (symbolic text costs ten minutes in CBMC's string models); what is proved is content-agnostic: the text goes to atoi unchanged */
	p1->value = v;
	g_atoi_calls = 0;
	pint r = p_ini_file_parameter_int (f, "s", "k", 7);
	OBL (g_atoi_calls == 1 && r == g_atoi_result && str_eq (g_atoi_arg, v), "int getter: exactly C's atoi of the stored text (decimal; '010' is ten, '0x10' is zero)");
	g_atoi_calls = 0;
	OBL (p_ini_file_parameter_int (f, "s", "zz", 7) == 7 && p_ini_file_parameter_int (f, "x", "k", -3) == -3 && g_atoi_calls == 0, "int getter: the default for a missing key or section, nothing converted");
#ifdef NUMERIC_BOOLEAN
	g_atoi_calls = 0;
	pboolean b = p_ini_file_parameter_boolean (f, "s", "k", FALSE);
	OBL (g_atoi_calls == 1 && str_eq (g_atoi_arg, v) && (b != FALSE) == (g_atoi_result > 0), "boolean getter: text that is not one of the four words is TRUE iff atoi of it is positive");
#endif
	CANARY ("end");
}
