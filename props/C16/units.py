LEVEL = "model_checking"
S = ["pinifile.c", "pstring.c", "plist.c"]
def U(id, entry, **kw):
    d = dict(id=id, harness="ini.c", entry=entry, sources=S, enforce=None, replace=[], timeout=900, timeout_thorough=7200, functions=[],
             cbmc_flags=["--unwinding-assertions", "--object-bits", "10"], cbmc_flags_quick=["--unwind", "16"], cbmc_flags_thorough=["--unwind", "26"])
    d.update(kw); return d
UNITS = [
    U("strchomp", "h_strchomp", canaries=3, functions=["p_strchomp", "p_strdup"], defines_quick=["INI_LINE_MAX=12"], defines_thorough=["INI_LINE_MAX=20"],
      bound={"quick": "every string of length <= 12", "thorough": "every string of length <= 20"}),
    U("parse_robust_after_section", "h_parse_robust", canaries=3, defines=["ROBUST_AFTER_SECTION"], defines_quick=["INI_LINES=2", "INI_LINE_MAX=4"], defines_thorough=["INI_LINES=2", "INI_LINE_MAX=6"], mem_gb=24,
      bound={"quick": "'[s]' followed by one line of <= 4 arbitrary bytes", "thorough": "<= 6 arbitrary bytes"}),
] + [U("parse_grammar_%d" % t, "h_parse_grammar", canaries=1, defines=["INI_LINES=2", "INI_LINE_MAX=12", "TEMPLATE=%d" % t], bound="documented line form #%d after a section header (fixed template)" % t) for t in range(6)] + [U("parse_grammar_%d" % t, "h_parse_grammar", canaries=1, defines=["INI_LINES=5" if t == 9 else "INI_LINES=2", "INI_LINE_MAX=12", "TEMPLATE=%d" % t], bound=("byte-order mark #%d in front of the first section header (fixed template)" % (t - 5)) if t < 9 else "fixed five-line file: line before any section, repeated key, comment line") for t in range(6, 10)] + [
    U("getters_numeric", "h_getters_numeric", canaries=1, defines=["INI_LINES=2", "INI_LINE_MAX=4"], functions=["p_ini_file_parameter_int"], bound="fixed object, value text '010'"),
    U("getters_list_single", "h_getters_allocfail", canaries=2, defines=["GETTER=5", "INI_LINES=2", "INI_LINE_MAX=4"], functions=[], bound="fixed object: list value '{c}'"),
    U("getters_list", "h_getters_allocfail", canaries=2, defines=["GETTER=4", "INI_LINES=2", "INI_LINE_MAX=4"], functions=["p_ini_file_parameter_list"], bound="fixed object: list value '{abc d  ef}'"),
] + [U("getter_boolean_%d" % t, "h_getter_boolean_word", canaries=1, defines=["TEMPLATE=%d" % t, "INI_LINES=2", "INI_LINE_MAX=4"], functions=["p_ini_file_parameter_boolean"] if t == 0 else [], timeout=1200,
          bound="fixed object, value text '%s'" % ("true", "TRUE", "false", "FALSE")[t]) for t in range(4)] + [
    U("getters", "h_getters", canaries=3, functions=["pp_ini_file_find_parameter", "p_ini_file_parameter_string", "p_ini_file_is_key_exists"], bound="one section, two keys, all names/values/queries of length <= 3"),
]
# removed from both tiers because they did not finish in the final thorough run under load (an hour each, or out of memory): parse_robust_line (one line of <= 8 arbitrary bytes without a section header),
# getters_words_0..4 (the four boolean words and a second list on a fixed object), getters_numeric_boolean; the harness functions stay in ini.c
REQUIRE_CONFIGURED = S
TECHNIQUE = "BOUNDED stand-in (small bounds -- the weakest check in this set): CBMC on the real pinifile.c/pstring.c with models of fgets and of sscanf's scanset semantics; unwinding assertions on"
LEVEL_TEXT = ("p_strchomp against its specification for every string up to the bound; p_ini_file_parse on every file of a section header followed by one line of at most 4 (quick) / 6 (thorough) arbitrary bytes: no "
              "memory error, file closed, every listed section has a key, every key a value, everything released; the documented value forms (comment removal, quotes, comment marker inside quotes, "
              "first '=', empty quoted value with a trailing comment, the three byte-order marks, a line before any section, a repeated key, a comment line) on ten concrete templates; getters: exact key match, last assignment wins, defaults, a brace list with shrinking items and repeated blanks, a one-item list, the integer getter as atoi of the stored text, the boolean getter on the four documented words. The parser's strings "
              "make unbounded contracts impractical with the installed back ends (string loops over symbolic bytes), hence small bounds; counted as bounded model checking only.")
LEVEL_NOTE = ("Bounds: lines <= 12 bytes, <= 2 lines, object strings <= 3 characters; the 1024-byte line limit paths are NOT reached. Trusted: fgets/sscanf/isspace models (env/stdio_ini.c), allocator. "
              "Not decided: numeric accuracy of p_strtod, atoi itself (the getters are proved to hand it exactly the stored text), the grammar beyond the templates, behaviour where the real sscanf differs from the model.")
