/* C17 -- contracts on the real functions of psocketaddress.c.
 * The real source is #included (scratch copy, byte-identical); the contracts
 * are attached by re-declaration.  Loop-free => every unit is unbounded. */
#include "env/verif.h"
#include "env/alloc.c"
#include "env/inet.c"
#include "psocketaddress.c"

/* ---- spec predicates (pure, written from the property / RFC, not from the code) */
#define BE16(p)   ((puint16) (((puint16) ((const puchar *) (p))[0] << 8) | ((const puchar *) (p))[1]))
#define SPEC_V4_IS_ANY(b)      ((b)[0] == 0 && (b)[1] == 0 && (b)[2] == 0 && (b)[3] == 0)
#define SPEC_V4_IS_LOOPBACK(b) ((b)[0] == 127)
#define SPEC_V6_ZERO15(b) ((b)[0]==0&&(b)[1]==0&&(b)[2]==0&&(b)[3]==0&&(b)[4]==0&&(b)[5]==0&&(b)[6]==0&&(b)[7]==0&& \
                           (b)[8]==0&&(b)[9]==0&&(b)[10]==0&&(b)[11]==0&&(b)[12]==0&&(b)[13]==0&&(b)[14]==0)
#define SPEC_V6_IS_ANY(b)      (SPEC_V6_ZERO15 (b) && (b)[15] == 0)
#define SPEC_V6_IS_LOOPBACK(b) (SPEC_V6_ZERO15 (b) && (b)[15] == 1)
#define A4(a) ((const puchar *) &(a)->addr.sin_addr)
#define A6(a) ((const puchar *) &(a)->addr.sin6_addr)
#define N4(n) ((const struct sockaddr_in *) (n))
#define N6(n) ((const struct sockaddr_in6 *) (n))
#define NB(n) ((const puchar *) (n))
/* family as the platform stores it: first two bytes, host order */
#define NFAM(n) (((const struct sockaddr *) (n))->sa_family)
#define EQ4(x, y)  ((x)[0]==(y)[0]&&(x)[1]==(y)[1]&&(x)[2]==(y)[2]&&(x)[3]==(y)[3])
#define EQ16(x, y) (EQ4 (x, y) && EQ4 ((x)+4, (y)+4) && EQ4 ((x)+8, (y)+8) && EQ4 ((x)+12, (y)+12))

#define MAXLEN ((psize) 1 << 32)

/* ---------------------------------------------------------------- contracts */

PSocketAddress *
p_socket_address_new_from_native (pconstpointer native, psize len)
__CPROVER_requires (len <= MAXLEN)
__CPROVER_requires (len == 0 || __CPROVER_is_fresh (native, len))
__CPROVER_assigns (g_alloc_failed, g_allocs, g_frees)
__CPROVER_ensures ((!g_alloc_may_fail && !__CPROVER_old (g_alloc_failed)) ==> !g_alloc_failed)
/* too small for the family it announces (or for announcing one) => failure */
__CPROVER_ensures (len < sizeof (sa_family_t) ==> __CPROVER_return_value == NULL)
__CPROVER_ensures ((len >= sizeof (sa_family_t) && NFAM (native) == AF_INET && len < sizeof (struct sockaddr_in)) ==> __CPROVER_return_value == NULL)
__CPROVER_ensures ((len >= sizeof (sa_family_t) && NFAM (native) == AF_INET6 && len < sizeof (struct sockaddr_in6)) ==> __CPROVER_return_value == NULL)
__CPROVER_ensures ((len >= sizeof (sa_family_t) && NFAM (native) != AF_INET && NFAM (native) != AF_INET6) ==> __CPROVER_return_value == NULL)
/* big enough and a known family => success unless the allocator failed */
__CPROVER_ensures ((len >= sizeof (struct sockaddr_in) && NFAM (native) == AF_INET && !g_alloc_failed) ==> __CPROVER_return_value != NULL)
__CPROVER_ensures ((len >= sizeof (struct sockaddr_in6) && NFAM (native) == AF_INET6 && !g_alloc_failed) ==> __CPROVER_return_value != NULL)
/* content */
__CPROVER_ensures (__CPROVER_return_value != NULL ==> __CPROVER_is_fresh (__CPROVER_return_value, sizeof (PSocketAddress)))
__CPROVER_ensures ((__CPROVER_return_value != NULL && NFAM (native) == AF_INET) ==>
	(__CPROVER_return_value->family == P_SOCKET_FAMILY_INET &&
	 EQ4 (A4 (__CPROVER_return_value), (const puchar *) &N4 (native)->sin_addr) &&
	 __CPROVER_return_value->port == BE16 (&N4 (native)->sin_port)))
__CPROVER_ensures ((__CPROVER_return_value != NULL && NFAM (native) == AF_INET6) ==>
	(__CPROVER_return_value->family == P_SOCKET_FAMILY_INET6 &&
	 EQ16 (A6 (__CPROVER_return_value), (const puchar *) &N6 (native)->sin6_addr) &&
	 __CPROVER_return_value->port == BE16 (&N6 (native)->sin6_port) &&
	 __CPROVER_return_value->flowinfo == N6 (native)->sin6_flowinfo &&
	 __CPROVER_return_value->scope_id == N6 (native)->sin6_scope_id))
;

pboolean
p_socket_address_to_native (const PSocketAddress *addr, ppointer dest, psize destlen)
__CPROVER_requires (destlen <= MAXLEN)
__CPROVER_requires (__CPROVER_is_fresh (addr, sizeof (PSocketAddress)))
__CPROVER_requires (destlen == 0 || __CPROVER_is_fresh (dest, destlen))
__CPROVER_assigns (destlen > 0: __CPROVER_object_whole (dest))
__CPROVER_ensures (__CPROVER_return_value == TRUE || __CPROVER_return_value == FALSE)
__CPROVER_ensures (__CPROVER_return_value == TRUE <==>
	((addr->family == P_SOCKET_FAMILY_INET  && destlen >= sizeof (struct sockaddr_in)) ||
	 (addr->family == P_SOCKET_FAMILY_INET6 && destlen >= sizeof (struct sockaddr_in6))))
__CPROVER_ensures ((__CPROVER_return_value == TRUE && addr->family == P_SOCKET_FAMILY_INET) ==>
	(NFAM (dest) == AF_INET && EQ4 ((const puchar *) &N4 (dest)->sin_addr, A4 (addr)) &&
	 BE16 (&N4 (dest)->sin_port) == addr->port &&
	 N4 (dest)->sin_zero[0] == 0 && N4 (dest)->sin_zero[1] == 0 && N4 (dest)->sin_zero[2] == 0 && N4 (dest)->sin_zero[3] == 0 &&
	 N4 (dest)->sin_zero[4] == 0 && N4 (dest)->sin_zero[5] == 0 && N4 (dest)->sin_zero[6] == 0 && N4 (dest)->sin_zero[7] == 0))
__CPROVER_ensures ((__CPROVER_return_value == TRUE && addr->family == P_SOCKET_FAMILY_INET6) ==>
	(NFAM (dest) == AF_INET6 && EQ16 ((const puchar *) &N6 (dest)->sin6_addr, A6 (addr)) &&
	 BE16 (&N6 (dest)->sin6_port) == addr->port &&
	 N6 (dest)->sin6_flowinfo == addr->flowinfo && N6 (dest)->sin6_scope_id == addr->scope_id))
;

psize
p_socket_address_get_native_size (const PSocketAddress *addr)
__CPROVER_requires (addr == NULL || __CPROVER_is_fresh (addr, sizeof (PSocketAddress)))
__CPROVER_assigns ()
__CPROVER_ensures (__CPROVER_return_value ==
	(addr == NULL ? 0 : addr->family == P_SOCKET_FAMILY_INET ? sizeof (struct sockaddr_in) :
	 addr->family == P_SOCKET_FAMILY_INET6 ? sizeof (struct sockaddr_in6) : 0))
;

PSocketFamily
p_socket_address_get_family (const PSocketAddress *addr)
__CPROVER_requires (addr == NULL || __CPROVER_is_fresh (addr, sizeof (PSocketAddress)))
__CPROVER_assigns ()
__CPROVER_ensures (__CPROVER_return_value == (addr == NULL ? P_SOCKET_FAMILY_UNKNOWN : addr->family))
;

puint16
p_socket_address_get_port (const PSocketAddress *addr)
__CPROVER_requires (addr == NULL || __CPROVER_is_fresh (addr, sizeof (PSocketAddress)))
__CPROVER_assigns ()
__CPROVER_ensures (__CPROVER_return_value == (addr == NULL ? 0 : addr->port))
;

puint32
p_socket_address_get_flow_info (const PSocketAddress *addr)
__CPROVER_requires (addr == NULL || __CPROVER_is_fresh (addr, sizeof (PSocketAddress)))
__CPROVER_assigns ()
__CPROVER_ensures (__CPROVER_return_value == ((addr == NULL || addr->family != P_SOCKET_FAMILY_INET6) ? 0 : addr->flowinfo))
;

puint32
p_socket_address_get_scope_id (const PSocketAddress *addr)
__CPROVER_requires (addr == NULL || __CPROVER_is_fresh (addr, sizeof (PSocketAddress)))
__CPROVER_assigns ()
__CPROVER_ensures (__CPROVER_return_value == ((addr == NULL || addr->family != P_SOCKET_FAMILY_INET6) ? 0 : addr->scope_id))
;

void
p_socket_address_set_flow_info (PSocketAddress *addr, puint32 flowinfo)
__CPROVER_requires (addr == NULL || __CPROVER_is_fresh (addr, sizeof (PSocketAddress)))
__CPROVER_assigns (addr != NULL: addr->flowinfo)
__CPROVER_ensures ((addr != NULL && addr->family == P_SOCKET_FAMILY_INET6) ==> addr->flowinfo == flowinfo)
__CPROVER_ensures ((addr != NULL && addr->family != P_SOCKET_FAMILY_INET6) ==> addr->flowinfo == __CPROVER_old (addr->flowinfo))
;

void
p_socket_address_set_scope_id (PSocketAddress *addr, puint32 scope_id)
__CPROVER_requires (addr == NULL || __CPROVER_is_fresh (addr, sizeof (PSocketAddress)))
__CPROVER_assigns (addr != NULL: addr->scope_id)
__CPROVER_ensures ((addr != NULL && addr->family == P_SOCKET_FAMILY_INET6) ==> addr->scope_id == scope_id)
__CPROVER_ensures ((addr != NULL && addr->family != P_SOCKET_FAMILY_INET6) ==> addr->scope_id == __CPROVER_old (addr->scope_id))
;

pboolean
p_socket_address_is_any (const PSocketAddress *addr)
__CPROVER_requires (addr == NULL || __CPROVER_is_fresh (addr, sizeof (PSocketAddress)))
__CPROVER_assigns ()
__CPROVER_ensures ((__CPROVER_return_value != FALSE) <==>
	(addr != NULL && addr->family != P_SOCKET_FAMILY_UNKNOWN &&
	 (addr->family == P_SOCKET_FAMILY_INET ? SPEC_V4_IS_ANY (A4 (addr)) : SPEC_V6_IS_ANY (A6 (addr)))))
;

pboolean
p_socket_address_is_loopback (const PSocketAddress *addr)
__CPROVER_requires (addr == NULL || __CPROVER_is_fresh (addr, sizeof (PSocketAddress)))
__CPROVER_assigns ()
__CPROVER_ensures ((__CPROVER_return_value != FALSE) <==>
	(addr != NULL && addr->family != P_SOCKET_FAMILY_UNKNOWN &&
	 (addr->family == P_SOCKET_FAMILY_INET ? SPEC_V4_IS_LOOPBACK (A4 (addr)) : SPEC_V6_IS_LOOPBACK (A6 (addr)))))
;

PSocketAddress *
p_socket_address_new_any (PSocketFamily family, puint16 port)
__CPROVER_assigns (g_alloc_failed, g_allocs, g_frees)
__CPROVER_ensures ((!g_alloc_may_fail && !__CPROVER_old (g_alloc_failed)) ==> !g_alloc_failed)
__CPROVER_ensures ((family != P_SOCKET_FAMILY_INET && family != P_SOCKET_FAMILY_INET6) ==> __CPROVER_return_value == NULL)
__CPROVER_ensures (((family == P_SOCKET_FAMILY_INET || family == P_SOCKET_FAMILY_INET6) && !g_alloc_failed) ==> __CPROVER_return_value != NULL)
__CPROVER_ensures (__CPROVER_return_value != NULL ==> (__CPROVER_is_fresh (__CPROVER_return_value, sizeof (PSocketAddress)) &&
	__CPROVER_return_value->family == family && __CPROVER_return_value->port == port &&
	__CPROVER_return_value->flowinfo == 0 && __CPROVER_return_value->scope_id == 0 &&
	(family == P_SOCKET_FAMILY_INET ? SPEC_V4_IS_ANY (A4 (__CPROVER_return_value)) : SPEC_V6_IS_ANY (A6 (__CPROVER_return_value)))))
;

PSocketAddress *
p_socket_address_new_loopback (PSocketFamily family, puint16 port)
__CPROVER_assigns (g_alloc_failed, g_allocs, g_frees)
__CPROVER_ensures ((!g_alloc_may_fail && !__CPROVER_old (g_alloc_failed)) ==> !g_alloc_failed)
__CPROVER_ensures ((family != P_SOCKET_FAMILY_INET && family != P_SOCKET_FAMILY_INET6) ==> __CPROVER_return_value == NULL)
__CPROVER_ensures (((family == P_SOCKET_FAMILY_INET || family == P_SOCKET_FAMILY_INET6) && !g_alloc_failed) ==> __CPROVER_return_value != NULL)
__CPROVER_ensures (__CPROVER_return_value != NULL ==> (__CPROVER_is_fresh (__CPROVER_return_value, sizeof (PSocketAddress)) &&
	__CPROVER_return_value->family == family && __CPROVER_return_value->port == port &&
	__CPROVER_return_value->flowinfo == 0 && __CPROVER_return_value->scope_id == 0 &&
	(family == P_SOCKET_FAMILY_INET ? SPEC_V4_IS_LOOPBACK (A4 (__CPROVER_return_value)) : SPEC_V6_IS_LOOPBACK (A6 (__CPROVER_return_value)))))
;

/* ---------------------------------------------------------------- harnesses */

void h_new_from_native (void)
{
	pconstpointer native; psize len;
	PSocketAddress *r = p_socket_address_new_from_native (native, len);
	if (r != NULL && r->family == P_SOCKET_FAMILY_INET) CANARY ("v4 accepted");
	if (r != NULL && r->family == P_SOCKET_FAMILY_INET6) CANARY ("v6 accepted");
	if (r == NULL && len == 1) CANARY ("one-byte buffer rejected");
	if (r == NULL && len > sizeof (struct sockaddr_in6)) CANARY ("rejected large");
}

void h_to_native (void)
{
	const PSocketAddress *addr; ppointer dest; psize destlen;
	pboolean r = p_socket_address_to_native (addr, dest, destlen);
	if (r && destlen == sizeof (struct sockaddr_in)) CANARY ("v4 ok with exact size");
	if (r && destlen >= sizeof (struct sockaddr_in6)) CANARY ("ok with v6 size");
	if (!r && destlen == 27) CANARY ("short buffer rejected");
}

#define H_GETTER(name, decl, call) void h_##name (void) { decl; call; CANARY (#name " returns"); }
H_GETTER (get_native_size, const PSocketAddress *a, p_socket_address_get_native_size (a))
H_GETTER (get_family, const PSocketAddress *a, p_socket_address_get_family (a))
H_GETTER (get_port, const PSocketAddress *a, p_socket_address_get_port (a))
H_GETTER (get_flow_info, const PSocketAddress *a, p_socket_address_get_flow_info (a))
H_GETTER (get_scope_id, const PSocketAddress *a, p_socket_address_get_scope_id (a))
H_GETTER (set_flow_info, PSocketAddress *a; puint32 v, p_socket_address_set_flow_info (a, v))
H_GETTER (set_scope_id, PSocketAddress *a; puint32 v, p_socket_address_set_scope_id (a, v))

void h_is_any (void)
{
	const PSocketAddress *a;
	pboolean r = p_socket_address_is_any (a);
	if (r) CANARY ("any");
	if (!r) CANARY ("not any");
}

void h_is_loopback (void)
{
	const PSocketAddress *a;
	pboolean r = p_socket_address_is_loopback (a);
	if (r) CANARY ("loopback");
	if (!r) CANARY ("not loopback");
}

void h_new_any (void)
{
	PSocketFamily f; puint16 port;
	PSocketAddress *r = p_socket_address_new_any (f, port);
	if (r) CANARY ("created"); else CANARY ("failed");
}

void h_new_loopback (void)
{
	PSocketFamily f; puint16 port;
	PSocketAddress *r = p_socket_address_new_loopback (f, port);
	if (r) CANARY ("created"); else CANARY ("failed");
}

/* ---- lemmas over the contracts (callees replaced by their contracts) */

/* native -> PSocketAddress -> native reproduces every field, all 2^32*2^16 v4
 * and all 2^128*2^16*2^32*2^32 v6 values */
void h_roundtrip_native_v4 (void)
{
	struct sockaddr_in x, y;
	x.sin_family = AF_INET;
	g_alloc_may_fail = 0; g_alloc_failed = 0;
	PSocketAddress *a = p_socket_address_new_from_native (&x, sizeof (x));
	OBL (a != NULL, "v4 native accepted");
	OBL (p_socket_address_get_native_size (a) == sizeof (struct sockaddr_in), "native size of v4");
	OBL (p_socket_address_get_family (a) == P_SOCKET_FAMILY_INET, "family v4");
	pboolean ok = p_socket_address_to_native (a, &y, sizeof (y));
	OBL (ok == TRUE, "to_native succeeds with exact size");
	OBL (y.sin_family == AF_INET && y.sin_port == x.sin_port && y.sin_addr.s_addr == x.sin_addr.s_addr, "v4 round trip identical");
	CANARY ("v4 round trip end");
}

void h_roundtrip_native_v6 (void)
{
	struct sockaddr_in6 x, y;
	x.sin6_family = AF_INET6;
	g_alloc_may_fail = 0; g_alloc_failed = 0;
	PSocketAddress *a = p_socket_address_new_from_native (&x, sizeof (x));
	OBL (a != NULL, "v6 native accepted");
	OBL (p_socket_address_get_native_size (a) == sizeof (struct sockaddr_in6), "native size of v6");
	OBL (p_socket_address_get_flow_info (a) == x.sin6_flowinfo && p_socket_address_get_scope_id (a) == x.sin6_scope_id, "flow/scope getters");
	pboolean ok = p_socket_address_to_native (a, &y, sizeof (y));
	OBL (ok == TRUE, "to_native succeeds with exact size");
	OBL (y.sin6_family == AF_INET6 && y.sin6_port == x.sin6_port && y.sin6_flowinfo == x.sin6_flowinfo &&
	     y.sin6_scope_id == x.sin6_scope_id && EQ16 ((const puchar *) &y.sin6_addr, (const puchar *) &x.sin6_addr), "v6 round trip identical");
	CANARY ("v6 round trip end");
}

/* PSocketAddress -> native -> PSocketAddress */
void h_roundtrip_addr (void)
{
	PSocketAddress *a = malloc (sizeof (PSocketAddress));
	__CPROVER_assume (a != NULL);
	__CPROVER_assume (a->family == P_SOCKET_FAMILY_INET || a->family == P_SOCKET_FAMILY_INET6);
	struct sockaddr_storage st;
	g_alloc_may_fail = 0; g_alloc_failed = 0;
	psize n = p_socket_address_get_native_size (a);
	OBL (n > 0 && n <= sizeof (st), "native size fits sockaddr_storage");
	pboolean ok = p_socket_address_to_native (a, &st, n);
	OBL (ok == TRUE, "to_native with get_native_size bytes succeeds");
	PSocketAddress *b = p_socket_address_new_from_native (&st, n);
	OBL (b != NULL, "converted back");
	OBL (b->family == a->family && b->port == a->port, "family and port survive");
	if (a->family == P_SOCKET_FAMILY_INET)
		OBL (EQ4 (A4 (a), A4 (b)), "v4 address survives");
	else
		OBL (EQ16 (A6 (a), A6 (b)) && a->flowinfo == b->flowinfo && a->scope_id == b->scope_id, "v6 address, flow info, scope id survive");
	OBL ((p_socket_address_is_any (a) != FALSE) == (p_socket_address_is_any (b) != FALSE), "classification any survives");
	OBL ((p_socket_address_is_loopback (a) != FALSE) == (p_socket_address_is_loopback (b) != FALSE), "classification loopback survives");
	CANARY ("addr round trip end");
}

/* ---- text paths: the library adds nothing to and removes nothing from the
 * platform's parser/printer (agreement with the platform by construction) */
void h_new_text (void)
{
	char text[8]; puint16 port;
	inet_env_reset ();
	g_text = text;
	g_alloc_failed = 0;
	PSocketAddress *r = p_socket_address_new (text, port);
	if (g_has_colon) {
		/* strings with ':' go to getaddrinfo(AI_NUMERICHOST) */
		OBL (g_gai_calls == 1 && g_pton_calls == 0, "':' strings: exactly one getaddrinfo");
		OBL (g_gai_ok ? g_gai_free_calls == 1 : g_gai_free_calls == 0, "addrinfo released exactly once iff obtained");
		_Bool plat = g_gai_ok && g_gai_family == AF_INET6 && g_gai_addrlen == sizeof (struct sockaddr_in6);
		OBL (!plat ==> r == NULL, "rejected by the platform => NULL");
		OBL ((plat && !g_alloc_failed) ==> r != NULL, "accepted by the platform => address");
		if (r != NULL) {
			OBL (r->family == P_SOCKET_FAMILY_INET6 && r->port == port, "family v6 and the caller's port");
			CANARY ("v6 via getaddrinfo");
		}
	} else {
		_Bool plat = g_pton_accept4 || g_pton_accept6;
		OBL (!plat ==> r == NULL, "rejected by inet_pton => NULL");
		OBL ((plat && !g_alloc_failed) ==> r != NULL, "accepted by inet_pton => address");
		if (r != NULL) {
			OBL (r->port == port, "the caller's port");
			OBL (r->family == (g_pton_accept4 ? P_SOCKET_FAMILY_INET : P_SOCKET_FAMILY_INET6), "family as the platform parsed it (v4 first)");
			if (r->family == P_SOCKET_FAMILY_INET) {
				OBL (EQ4 (A4 (r), g_pton_bytes), "v4 bytes stored verbatim");
				CANARY ("v4 via inet_pton");
			} else {
				OBL (EQ16 (A6 (r), g_pton_bytes), "v6 bytes stored verbatim");
				CANARY ("v6 via inet_pton");
			}
			OBL (r->flowinfo == 0 && r->scope_id == 0, "no flow info / scope id invented");
		}
	}
	if (r == NULL) CANARY ("text rejected");
}

void h_get_address (void)
{
	PSocketAddress *a = malloc (sizeof (PSocketAddress));
	__CPROVER_assume (a != NULL);
	inet_env_reset ();
	pchar *s = p_socket_address_get_address (a);
	if (a->family == P_SOCKET_FAMILY_UNKNOWN) {
		OBL (s == NULL && g_ntop_calls == 0, "unknown family => NULL");
		CANARY ("unknown family");
	} else if (a->family == P_SOCKET_FAMILY_INET || a->family == P_SOCKET_FAMILY_INET6) {
		OBL (g_ntop_calls == 1, "exactly one inet_ntop");
		OBL (g_ntop_af == (a->family == P_SOCKET_FAMILY_INET ? AF_INET : AF_INET6), "inet_ntop family = address family");
		OBL (g_ntop_src == (const void *) &a->addr, "inet_ntop reads the stored bytes");
		OBL (g_strdup_arg == g_ntop_dst && s == g_strdup_ret, "result is a copy of what inet_ntop printed");
		CANARY ("printed");
	}
}

void h_text_null (void)
{
	puint16 port;
	OBL (p_socket_address_new (NULL, port) == NULL, "NULL text => NULL");
	OBL (p_socket_address_get_address (NULL) == NULL, "NULL address => NULL");
	CANARY ("end");
}
