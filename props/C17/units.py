LEVEL = "proof"
S = ["psocketaddress.c"]

def U(id, entry, enforce=None, replace=(), **kw):
    d = dict(id=id, harness="addr.c", entry=entry, sources=S, enforce=enforce, replace=list(replace), timeout=300)
    d.update(kw)
    return d

GET = ["p_socket_address_get_native_size", "p_socket_address_get_family", "p_socket_address_get_port",
       "p_socket_address_get_flow_info", "p_socket_address_get_scope_id", "p_socket_address_is_any", "p_socket_address_is_loopback"]
CONV = ["p_socket_address_new_from_native", "p_socket_address_to_native"]

UNITS = [
    U("new_from_native", "h_new_from_native", "p_socket_address_new_from_native", canaries=4,
      replay={"driver": "C17_replay.c", "mode": "new_from_native", "args": ["len"]}),
    U("to_native", "h_to_native", "p_socket_address_to_native", canaries=3,
      replay={"driver": "C17_replay.c", "mode": "to_native", "args": ["destlen"]}),
] + [
    U(n, "h_" + n, "p_socket_address_" + n) for n in
    ["get_native_size", "get_family", "get_port", "get_flow_info", "get_scope_id", "set_flow_info", "set_scope_id"]
] + [
    U("is_any", "h_is_any", "p_socket_address_is_any", canaries=2),
    U("is_loopback", "h_is_loopback", "p_socket_address_is_loopback", canaries=2),
    U("new_any", "h_new_any", "p_socket_address_new_any", canaries=2),
    U("new_loopback", "h_new_loopback", "p_socket_address_new_loopback", canaries=2),
    U("lemma_roundtrip_native_v4", "h_roundtrip_native_v4", None, CONV + GET[:2], functions=[]),
    U("lemma_roundtrip_native_v6", "h_roundtrip_native_v6", None, CONV + GET[:1] + GET[3:5], functions=[]),
    U("lemma_roundtrip_addr", "h_roundtrip_addr", None, CONV + [GET[0]] + GET[5:], functions=[]),
    U("new_text", "h_new_text", None, ["p_socket_address_new_from_native"], functions=["p_socket_address_new"], canaries=4),
    U("get_address", "h_get_address", None, [], functions=["p_socket_address_get_address"], canaries=2),
    U("text_null", "h_text_null", None, [], functions=[]),
]
ASSUMPTIONS = [
    "inet_pton / inet_ntop / getaddrinfo are the platform's parser and printer; agreement of text forms 'with the platform' is by construction (the library passes strings and bytes through unchanged), the functions themselves are trusted",
    "buffer lengths are quantified up to 2^32 bytes (is_fresh object size); behaviour above sizeof(sockaddr_in6)=28 does not depend on the length",
]
TECHNIQUE = "CBMC function contracts (DFCC) enforced on the real psocketaddress.c, loop-free so unbounded; round-trip lemmas proved over the contracts by replacement"
LEVEL_TEXT = ("Every conversion/classification function of psocketaddress.c is verified against a pre/postcondition contract for all inputs "
              "(all 2^32 v4 / 2^128 v6 addresses, all ports/flow/scope values, all buffer lengths up to 2^32 with exact-size is_fresh objects so any "
              "out-of-bounds read or write fails a pointer check); the native<->PSocketAddress round trips are lemmas proved from the contracts alone. "
              "The functions are loop-free, so the proof is complete (no unwinding bound).")
LEVEL_NOTE = ("Trusted: CBMC/DFCC + SAT back end; allocator model env/alloc.c; inet_pton/inet_ntop/getaddrinfo are assumed contracts (the text<->address "
              "agreement with the platform is by construction: strings and bytes are passed through unchanged, which is what is proved). "
              "Text->address->text identity itself is the platform's property, not decided.")
