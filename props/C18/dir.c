/* C18/C20 -- pdir-posix.c with an allocator that may fail at EVERY allocation: no invalid access, failure value,
 * nothing left allocated, the directory stream closed exactly once. Bounded: path and entry names <= 4 characters. */
/* TRUSTED: opendir/readdir/closedir/stat (call-log stubs): opendir may fail; readdir yields any number of entries with names of at most 4 characters, then NULL */
#include "env/verif.h"
#include "env/alloc.c"
#include "env/perror_stub.c"
#include "env/errno_stub.c"
#include <dirent.h>
#include <sys/stat.h>
PErrorIO p_error_get_last_io (void) { return P_ERROR_IO_FAILED; }
void p_error_set_last_system (pint c) { g_errno = c; }
unsigned g_opendirs, g_closedirs; _Bool g_dir_open; struct dirent g_dirent; int g_dir_obj;
DIR *opendir (const char *p) { if (nondet_bool ()) return NULL; ENV_REQ (!g_dir_open, "one stream per object"); g_opendirs++; g_dir_open = 1; return (DIR *) &g_dir_obj; }
int closedir (DIR *d) { ENV_REQ (d == (DIR *) &g_dir_obj && g_dir_open, "closedir: the open stream, exactly once"); g_closedirs++; g_dir_open = 0; return 0; }
struct dirent *readdir (DIR *d) { ENV_REQ (d == (DIR *) &g_dir_obj && g_dir_open, "readdir on the open stream"); if (nondet_bool ()) return NULL; for (int i = 0; i < 4; i++) g_dirent.d_name[i] = (char) nondet_uchar (); g_dirent.d_name[4] = 0; return &g_dirent; }
void rewinddir (DIR *d) { ENV_REQ (d == (DIR *) &g_dir_obj && g_dir_open, "rewinddir on the open stream"); }
int stat (const char *p, struct stat *sb) { ENV_REQ (p != NULL, "stat path"); if (nondet_bool ()) return -1; sb->st_mode = nondet_uint (); return 0; }
int mkdir (const char *p, mode_t m) { return nondet_int (); }
int rmdir (const char *p) { return nondet_int (); }
#include "pstring.c"
#include "pdir.c"
#include "pdir-posix.c"

void h_dir (void)
{
	char path[5]; for (int i = 0; i < 4; i++) path[i] = (char) nondet_uchar (); path[4] = 0; __CPROVER_assume (path[0] != 0);
	g_alloc_may_fail = 1; g_alloc_failed = 0; g_allocs = g_frees = 0; g_opendirs = g_closedirs = 0; g_dir_open = 0; g_err_calls = 0;
	PDir *d = p_dir_new (path, NULL);
	if (d == NULL) {
		OBL (g_allocs == g_frees && !g_dir_open && g_opendirs == g_closedirs, "failed p_dir_new: nothing allocated, stream closed again");
		OBL (g_err_calls >= 1, "failure is reported");
		CANARY ("dir_new failed");
		return;
	}
	OBL (d->path != NULL && d->orig_path != NULL, "a directory object is complete: both path copies present");
	PDirEntry *e = p_dir_get_next_entry (d, NULL);
	if (e != NULL) { OBL (e->name != NULL, "an entry has a name"); p_dir_entry_free (e); CANARY ("entry"); }
	pchar *gp = p_dir_get_path (d); if (gp != NULL) p_free (gp);
	p_dir_free (d);
	OBL (g_allocs == g_frees, "everything allocated is released once the objects are freed");
	OBL (!g_dir_open && g_opendirs == 1 && g_closedirs == 1, "the directory stream is closed exactly once");
	CANARY ("dir lifecycle");
}
