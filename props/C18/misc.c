/* C18 -- allocation failure at every allocation for: pmem.c itself (user allocator table), prwlock-general.c p_rwlock_new,
 * perror.c constructors, pstring.c p_strdup. */
#include "env/verif.h"
#if defined (UNIT_PMEM)
/* the real pmem.c over a user-supplied allocator table whose malloc/realloc fail nondeterministically: this is what
 * env/alloc.c models for all other units */
#include <stdlib.h>
_Bool nondet_bool (void);
unsigned g_um, g_ur, g_uf; _Bool g_user_failed;
static void *u_malloc (size_t n) { g_um++; if (nondet_bool ()) { g_user_failed = 1; return NULL; } void *r = malloc (n); __CPROVER_assume (r != NULL); return r; }
static void *u_realloc (void *p, size_t n) { g_ur++; if (nondet_bool ()) { g_user_failed = 1; return NULL; } void *r = realloc (p, n); __CPROVER_assume (r != NULL); return r; }
static void u_free (void *p) { g_uf++; free (p); }
#include "pmem.c"
void h_pmem (void)
{
	PMemVTable vt; vt.f_malloc = u_malloc; vt.f_realloc = u_realloc; vt.f_free = u_free;
	OBL (p_mem_set_vtable (&vt) == TRUE && p_mem_set_vtable (NULL) == FALSE, "a complete table is installed, NULL rejected");
	PMemVTable bad = vt; bad.f_free = NULL;
	OBL (p_mem_set_vtable (&bad) == FALSE, "an incomplete table is rejected");
	psize n = nondet_size_t (); __CPROVER_assume (n <= 64);
	g_um = g_ur = g_uf = 0; g_user_failed = 0;
	unsigned char *a = p_malloc0 (n);
	OBL (n == 0 ? (a == NULL && g_um == 0) : (g_um == 1 && (a != NULL || g_user_failed)), "p_malloc0: NULL for size 0 without calling the allocator, else exactly one allocation, NULL only if it failed");
	if (a != NULL) { unsigned i = nondet_uint (); __CPROVER_assume (i < n); OBL (a[i] == 0, "p_malloc0 zeroes the block"); CANARY ("allocated"); }
	unsigned char *b = p_realloc (a, n);
	OBL (n == 0 ? b == NULL : 1, "p_realloc to size 0: NULL");
	if (b == NULL && a != NULL && n != 0) { OBL (g_user_failed, "p_realloc fails only if the allocator did; the old block stays valid"); a[0] = 1; p_free (a); CANARY ("realloc failed"); }
	else if (b != NULL) p_free (b);
	else if (a != NULL) p_free (a);
	p_free (NULL);
	OBL (g_uf <= 1, "each block is handed back at most once; p_free(NULL) never reaches the allocator");
}
#elif defined (UNIT_RWLOCK_NEW)
#include "env/alloc.c"
#include "pmutex.h"
#include "pcondvariable.h"
unsigned g_mnew, g_mfree, g_cnew, g_cfree;
PMutex *p_mutex_new (void) { if (nondet_bool ()) { g_alloc_failed = 1; return NULL; } g_mnew++; PMutex *m = malloc (1); __CPROVER_assume (m != NULL); return m; }
void p_mutex_free (PMutex *m) { if (m == NULL) return; g_mfree++; free (m); }
PCondVariable *p_cond_variable_new (void) { if (nondet_bool ()) { g_alloc_failed = 1; return NULL; } g_cnew++; PCondVariable *c = malloc (1); __CPROVER_assume (c != NULL); return c; }
void p_cond_variable_free (PCondVariable *c) { if (c == NULL) return; g_cfree++; free (c); }
pboolean p_mutex_lock (PMutex *m) { return TRUE; } pboolean p_mutex_unlock (PMutex *m) { return TRUE; }
pboolean p_cond_variable_wait (PCondVariable *c, PMutex *m) { return TRUE; } pboolean p_cond_variable_signal (PCondVariable *c) { return TRUE; } pboolean p_cond_variable_broadcast (PCondVariable *c) { return TRUE; }
#include "prwlock-general.c"
void h_rwlock_new (void)
{
	g_alloc_may_fail = 1; g_alloc_failed = 0; g_allocs = g_frees = 0; g_mnew = g_mfree = g_cnew = g_cfree = 0;
	PRWLock *l = p_rwlock_new ();
	if (l == NULL) { OBL (g_alloc_failed && g_allocs == g_frees && g_mnew == g_mfree && g_cnew == g_cfree, "failed p_rwlock_new: NULL, every partial resource released exactly once"); CANARY ("new failed"); return; }
	OBL (l->mutex != NULL && l->read_cv != NULL && l->write_cv != NULL, "a lock object is complete");
	OBL (l->active_threads == 0 && l->waiting_threads == 0, "a new lock is free and has no waiters (the initial state the C02 monitor invariant starts from)");
	p_rwlock_free (l);
	OBL (g_allocs == g_frees && g_mnew == g_mfree && g_cnew == g_cfree, "new/free leaves nothing");
	CANARY ("new/free");
}
#elif defined (UNIT_ERROR)
#include "env/alloc.c"
#include <errno.h>
#include "pstring.c"
#include "perror.c"
void h_error (void)
{
	g_alloc_may_fail = 1; g_alloc_failed = 0; g_allocs = g_frees = 0;
	char msg[4]; msg[0] = (char) nondet_uchar (); msg[1] = (char) nondet_uchar (); msg[2] = (char) nondet_uchar (); msg[3] = 0;
	pint code = nondet_int (), nat = nondet_int ();
	PError *e = p_error_new_literal (code, nat, msg);
	if (e != NULL) {
		OBL (p_error_get_code (e) == code && p_error_get_native_code (e) == nat, "error object carries the codes");
		PError *c = p_error_copy (e);
		if (c != NULL) { OBL (p_error_get_code (c) == code, "copy carries the code"); p_error_free (c); CANARY ("copied"); }
		p_error_set_error (e, code, nat, msg);
		p_error_clear (e);
		p_error_free (e);
	} else CANARY ("new failed");
	PError *n = p_error_new ();
	if (n != NULL) {
		OBL (p_error_get_code (n) == 0 && p_error_get_message (n) == NULL, "a new error object is empty");
		p_error_set_message (n, msg); p_error_set_message (n, msg);       /* the second call releases the first copy */
		p_error_set_code (n, code); p_error_set_native_code (n, nat);
		OBL (p_error_get_code (n) == code && p_error_get_native_code (n) == nat, "setters");
		p_error_free (n);
	}
	p_error_set_message (NULL, msg);
	PError *slot = NULL;
	p_error_set_error_p (&slot, code, nat, msg);
	if (slot != NULL) p_error_free (slot);
	OBL (g_allocs == g_frees, "nothing stays allocated after the error objects are freed, whichever allocation failed");
}
#endif
