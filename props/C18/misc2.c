/* C18 / C20 -- small constructors with every allocation allowed to fail: failure value, nothing kept on failure, a complete
 * object on success, new/free balanced.  One unit per -DUNIT_*. */
#include "env/verif.h"
#include "env/alloc.c"
#define START() do { g_alloc_may_fail = 1; g_alloc_failed = 0; g_allocs = g_frees = 0; } while (0)
#if defined (UNIT_TREE_NEW)
#include "ptree-bst.c"
#include "ptree-rb.c"
#include "ptree-avl.c"
#include "ptree.c"
static pint cmp (pconstpointer a, pconstpointer b, ppointer d) { return 0; }
static void kd (ppointer p) {} static void vd (ppointer p) {}
void h_tree_new (void)
{
	int type = nondet_int (); _Bool with_cmp = nondet_bool ();
	START ();
	_Bool kn = nondet_bool (), vn = nondet_bool (); int udata;
	PTree *t = p_tree_new_full ((PTreeType) type, with_cmp ? cmp : NULL, &udata, kn ? kd : NULL, vn ? vd : NULL);
	_Bool valid = type >= (int) P_TREE_TYPE_BINARY && type <= (int) P_TREE_TYPE_AVL && with_cmp;
	if (t == NULL) { OBL ((!valid || g_alloc_failed) && g_allocs == g_frees, "failed p_tree_new_full: invalid arguments or allocation failure, nothing kept"); CANARY ("new failed"); return; }
	OBL (valid && t->root == NULL && p_tree_get_nnodes (t) == 0 && p_tree_get_type (t) == (PTreeType) type, "an empty tree of the requested type");
	OBL (t->insert_node_func != NULL && t->remove_node_func != NULL && t->free_node_func != NULL, "operations table complete");
	OBL (t->compare_func == cmp && t->data == (ppointer) &udata && t->key_destroy_func == (kn ? kd : NULL) && t->value_destroy_func == (vn ? vd : NULL),
	     "C14: comparator, its user data and exactly the given notifiers (each independently, none invented) are recorded");
	p_tree_free (t);
	OBL (g_allocs == g_frees, "new/free leaves nothing");
	CANARY ("new/free");
}
#elif defined (UNIT_HT_NEW)
#include "plist.c"
#include "phashtable.c"
void h_ht_new (void)
{
	START ();
	PHashTable *t = p_hash_table_new ();
	if (t == NULL) { OBL (g_alloc_failed && g_allocs == g_frees, "failed p_hash_table_new: NULL, the partial object released"); CANARY ("new failed"); return; }
	unsigned i = nondet_uint (); __CPROVER_assume (i < P_HASH_TABLE_SIZE);
	OBL (t->table != NULL && t->size == P_HASH_TABLE_SIZE && t->table[i] == NULL, "an empty table with all buckets");
	p_hash_table_free (t);
	OBL (g_allocs == g_frees, "new/free leaves nothing");
	CANARY ("new/free");
}
#elif defined (UNIT_PROFILER)
#include "ptimeprofiler.h"
#include "ptimeprofiler-private.h"
puint64 p_time_profiler_get_ticks_internal (void) { return nondet_ulong (); }
puint64 p_time_profiler_elapsed_usecs_internal (const PTimeProfiler *profiler) { return nondet_ulong (); }
#include "ptimeprofiler.c"
void h_profiler (void)
{
	START ();
	PTimeProfiler *p = p_time_profiler_new ();
	if (p == NULL) { OBL (g_alloc_failed && g_allocs == g_frees, "failed p_time_profiler_new: NULL, nothing kept"); CANARY ("new failed"); return; }
	p_time_profiler_reset (p); (void) p_time_profiler_elapsed_usecs (p);
	p_time_profiler_free (p);
	p_time_profiler_free (NULL); p_time_profiler_reset (NULL);
	OBL (p_time_profiler_elapsed_usecs (NULL) == 0, "NULL profiler: 0");
	OBL (g_allocs == g_frees, "new/free leaves nothing");
	CANARY ("new/free");
}
#elif defined (UNIT_SPIN_NEW)
#include "pspinlock-c11.c"
void h_spin_new (void)
{
	START ();
	PSpinLock *s = p_spinlock_new ();
	if (s == NULL) { OBL (g_alloc_failed && g_allocs == g_frees, "failed p_spinlock_new: NULL, nothing kept"); CANARY ("new failed"); return; }
	OBL (s->spin == 0, "a new spinlock is free");
	p_spinlock_free (s); p_spinlock_free (NULL);
	OBL (g_allocs == g_frees, "new/free leaves nothing");
	CANARY ("new/free");
}
#elif defined (UNIT_HASH_CTX)
#include ALG_SRC
void h_hash_ctx (void)
{
	START ();
	ALG_TYPE *c = ALG_NEW ();
	if (c == NULL) { OBL (g_alloc_failed && g_allocs == g_frees, "failed context constructor: NULL (the reset is not run on a NULL context), nothing kept"); CANARY ("new failed"); return; }
	/* C11: a new context is in the reset state of ITS variant (224 vs 256, 384 vs 512, the four SHA-3 widths): running the
	 * family's reset on it changes nothing */
	ALG_TYPE before = *c; unsigned i = nondet_uint (); __CPROVER_assume (i < sizeof (ALG_TYPE));
	ALG_RESET (c);
	OBL (((const unsigned char *) &before)[i] == ((const unsigned char *) c)[i], "a new hash context equals the reset context of its variant (byte i, every i)");
	ALG_FREE (c);
	OBL (g_allocs == g_frees, "new/free leaves nothing");
	CANARY ("new/free");
}
#endif
