import os, sys, importlib.util
def _load(p):
    path = os.path.join(os.path.dirname(os.path.abspath(__file__)), "..", p, "units.py")
    s = importlib.util.spec_from_file_location("u_" + p, path); m = importlib.util.module_from_spec(s); s.loader.exec_module(m); return m
def pick(p, ids, hdir=None):
    out = []
    for u in _load(p).UNITS:
        if u["id"] in ids:
            v = dict(u); v["id"] = p.lower() + "_" + u["id"]
            if not v["harness"].startswith("../"):
                v["harness"] = "../%s/%s" % (hdir or p, v["harness"])
            if p == "C07": v["defines"] = list(v.get("defines", [])) + ["KF_EXCLUDE_C07_ZERO_SIZE_LEFTOVER"]   # regions of the C07/C08 known findings: decided (and reported) under C07/C08 only
            if p == "C08": v["defines"] = list(v.get("defines", [])) + ["KF_EXCLUDE_C08_OPEN_SMALLER_SIZE"]
            out.append(v)
    return out
LEVEL = "model_checking"
def U(id, entry, harness, src, **kw):
    d = dict(id=id, harness=harness, entry=entry, sources=src, enforce=None, replace=[], timeout=900, functions=[], cbmc_flags=["--unwind", "8", "--unwinding-assertions", "--object-bits", "10"])
    d.update(kw); return d
UNITS = [
    dict(id="alloc_coverage", kind="static", script="alloc_scan.py", harness="", entry="", sources=[], what="every function of the configured sources that calls p_malloc/p_malloc0/p_realloc/p_strdup directly is listed under 'functions' by a C18 unit (one stated exception)"),
    U("pmem_vtable", "h_pmem", "misc.c", ["pmem.c"], defines=["UNIT_PMEM"], canaries=2, functions=["p_malloc", "p_malloc0", "p_realloc", "p_free", "p_mem_set_vtable"], cbmc_flags=["--object-bits", "10"]),
    U("dir", "h_dir", "dir.c", ["pdir-posix.c", "pdir.c", "pstring.c"], canaries=3, functions=["p_dir_new", "p_dir_get_next_entry", "p_dir_free", "p_dir_get_path", "p_dir_entry_free"],
      bound="path and entry names of at most 4 characters", replay={"driver": "C18_replay.c", "mode": "dir", "args": []}),
    U("rwlock_general_new", "h_rwlock_new", "misc.c", ["prwlock-general.c"], defines=["UNIT_RWLOCK_NEW"], canaries=2, functions=["p_rwlock_new", "p_rwlock_free"],
      replay={"driver": "C18_replay.c", "mode": "rwlock", "args": [], "sources": {"all_except": ["prwlock-posix.c"], "plus": ["prwlock-general.c"]}}),
    U("error", "h_error", "misc.c", ["perror.c", "pstring.c"], defines=["UNIT_ERROR"], canaries=2, functions=["p_error_new", "p_error_new_literal", "p_error_copy", "p_error_set_error", "p_error_set_error_p", "p_error_set_message", "p_error_clear", "p_error_free", "p_strdup"],
      bound="messages of at most 3 characters"),
    dict(id="ini_parse_allocfail", harness="../C16/ini.c", entry="h_parse_robust", sources=["pinifile.c", "pstring.c", "plist.c"], enforce=None, replace=[], timeout=1200, canaries=3, mem_gb=24,
         defines=["ROBUST_AFTER_SECTION", "ALLOC_STRICT", "INI_LINES=2", "INI_LINE_MAX=4"], cbmc_flags=["--unwind", "16", "--unwinding-assertions", "--object-bits", "10"],
         functions=["p_ini_file_new", "p_ini_file_parse", "pp_ini_file_parameter_new", "pp_ini_file_section_new", "p_ini_file_free"], bound="'[s]' followed by one line of <= 4 arbitrary bytes",
         replay={"driver": "C18_replay.c", "mode": "ini", "args": []}),
] + [dict(id="ini_getter_allocfail_%d" % g, harness="../C16/ini.c", entry="h_getters_allocfail", sources=["pinifile.c", "pstring.c", "plist.c"], enforce=None, replace=[], timeout=900, canaries=2,
          defines=["GETTER=%d" % g, "INI_LINES=2", "INI_LINE_MAX=4"], cbmc_flags=["--unwind", "12", "--unwinding-assertions", "--object-bits", "10"],
          functions=[["p_ini_file_sections", "pp_ini_file_prepend_copy"], ["p_ini_file_keys", "pp_ini_file_prepend_copy"], ["p_ini_file_parameter_string", "pp_ini_file_find_parameter"], ["p_ini_file_parameter_list", "pp_ini_file_append_copy", "pp_ini_file_find_parameter"]][g],
          bound="fixed parsed object: one section, one key, value '{a b}'", replay={"driver": "C18_replay.c", "mode": "ini_getter%d" % g, "args": []}) for g in range(4)] + [
    U("tree_new", "h_tree_new", "misc2.c", ["ptree.c", "ptree-bst.c", "ptree-rb.c", "ptree-avl.c"], defines=["UNIT_TREE_NEW"], canaries=2, functions=["p_tree_new_full", "p_tree_free"], cbmc_flags=["--unwind", "4", "--unwinding-assertions", "--object-bits", "10"]),
] + [dict(id="ht_listing_allocfail_%d" % w, harness="../C15/ht.c", entry="h_listing_allocfail", sources=["phashtable.c", "plist.c"], enforce=None, replace=[], defines=["LIST_WHICH=%d" % w, "L=3"], canaries=2, timeout=600,
          functions=[fn, "p_list_append", "p_list_free"], cbmc_flags=["--unwinding-assertions", "--object-bits", "10", "--unwind", "6"],
          bound="a table object of 2 buckets holding at most 3 entries in any distribution; every list-node allocation may fail independently")
     for w, fn in enumerate(("p_hash_table_keys", "p_hash_table_values", "p_hash_table_lookup_by_value"))] + [
    U("hash_table_new", "h_ht_new", "misc2.c", ["phashtable.c", "plist.c"], defines=["UNIT_HT_NEW"], canaries=2, functions=["p_hash_table_new", "p_hash_table_free"],
      cbmc_flags=["--unwindset", "p_hash_table_free.0:2,p_hash_table_free.1:102", "--unwinding-assertions", "--object-bits", "10"], timeout=300, bound="bucket loop of p_hash_table_free unwound to the fixed table size 101, chain loop once (the table is empty): complete, unwinding assertions on"),
    U("time_profiler_new", "h_profiler", "misc2.c", ["ptimeprofiler.c"], defines=["UNIT_PROFILER"], canaries=2, functions=["p_time_profiler_new", "p_time_profiler_free", "p_time_profiler_reset"], cbmc_flags=[]),
    U("spinlock_new", "h_spin_new", "misc2.c", ["pspinlock-c11.c"], defines=["UNIT_SPIN_NEW"], canaries=2, functions=["p_spinlock_new", "p_spinlock_free"], cbmc_flags=[]),
    U("hash_ctx_md5", "h_hash_ctx", "misc2.c", ["pcryptohash-md5.c"], defines=["UNIT_HASH_CTX", 'ALG_SRC="pcryptohash-md5.c"', "ALG_TYPE=PHashMD5", "ALG_NEW=p_crypto_hash_md5_new", "ALG_FREE=p_crypto_hash_md5_free", "ALG_RESET=p_crypto_hash_md5_reset"], canaries=2, functions=["p_crypto_hash_md5_new", "p_crypto_hash_md5_free"], cbmc_flags=["--unwind", "100", "--unwinding-assertions"],
      bound="fixed-size initialisation loops fully unwound: complete, unwinding assertions on"),
    U("hash_ctx_sha1", "h_hash_ctx", "misc2.c", ["pcryptohash-sha1.c"], defines=["UNIT_HASH_CTX", 'ALG_SRC="pcryptohash-sha1.c"', "ALG_TYPE=PHashSHA1", "ALG_NEW=p_crypto_hash_sha1_new", "ALG_FREE=p_crypto_hash_sha1_free", "ALG_RESET=p_crypto_hash_sha1_reset"], canaries=2, functions=["p_crypto_hash_sha1_new", "p_crypto_hash_sha1_free"], cbmc_flags=["--unwind", "100", "--unwinding-assertions"],
      bound="fixed-size initialisation loops fully unwound: complete, unwinding assertions on"),
    U("hash_ctx_sha2_256", "h_hash_ctx", "misc2.c", ["pcryptohash-sha2-256.c"], defines=["UNIT_HASH_CTX", 'ALG_SRC="pcryptohash-sha2-256.c"', "ALG_TYPE=PHashSHA2_256", "ALG_NEW=p_crypto_hash_sha2_256_new", "ALG_FREE=p_crypto_hash_sha2_256_free", "ALG_RESET=p_crypto_hash_sha2_256_reset"], canaries=2, functions=["p_crypto_hash_sha2_256_new", "p_crypto_hash_sha2_256_free", "pp_crypto_hash_sha2_256_new_internal"], cbmc_flags=["--unwind", "100", "--unwinding-assertions"],
      bound="fixed-size initialisation loops fully unwound: complete, unwinding assertions on"),
    U("hash_ctx_sha2_224", "h_hash_ctx", "misc2.c", ["pcryptohash-sha2-256.c"], defines=["UNIT_HASH_CTX", 'ALG_SRC="pcryptohash-sha2-256.c"', "ALG_TYPE=PHashSHA2_256", "ALG_NEW=p_crypto_hash_sha2_224_new", "ALG_FREE=p_crypto_hash_sha2_256_free", "ALG_RESET=p_crypto_hash_sha2_256_reset"], canaries=2, functions=["p_crypto_hash_sha2_224_new", "p_crypto_hash_sha2_256_free", "pp_crypto_hash_sha2_256_new_internal"], cbmc_flags=["--unwind", "100", "--unwinding-assertions"],
      bound="fixed-size initialisation loops fully unwound: complete, unwinding assertions on"),
    U("hash_ctx_sha2_512", "h_hash_ctx", "misc2.c", ["pcryptohash-sha2-512.c"], defines=["UNIT_HASH_CTX", 'ALG_SRC="pcryptohash-sha2-512.c"', "ALG_TYPE=PHashSHA2_512", "ALG_NEW=p_crypto_hash_sha2_512_new", "ALG_FREE=p_crypto_hash_sha2_512_free", "ALG_RESET=p_crypto_hash_sha2_512_reset"], canaries=2, functions=["p_crypto_hash_sha2_512_new", "p_crypto_hash_sha2_512_free", "pp_crypto_hash_sha2_512_new_internal"], cbmc_flags=["--unwind", "100", "--unwinding-assertions"],
      bound="fixed-size initialisation loops fully unwound: complete, unwinding assertions on"),
    U("hash_ctx_sha2_384", "h_hash_ctx", "misc2.c", ["pcryptohash-sha2-512.c"], defines=["UNIT_HASH_CTX", 'ALG_SRC="pcryptohash-sha2-512.c"', "ALG_TYPE=PHashSHA2_512", "ALG_NEW=p_crypto_hash_sha2_384_new", "ALG_FREE=p_crypto_hash_sha2_512_free", "ALG_RESET=p_crypto_hash_sha2_512_reset"], canaries=2, functions=["p_crypto_hash_sha2_384_new", "p_crypto_hash_sha2_512_free", "pp_crypto_hash_sha2_512_new_internal"], cbmc_flags=["--unwind", "100", "--unwinding-assertions"],
      bound="fixed-size initialisation loops fully unwound: complete, unwinding assertions on"),
    U("hash_ctx_sha3_224", "h_hash_ctx", "misc2.c", ["pcryptohash-sha3.c"], defines=["UNIT_HASH_CTX", 'ALG_SRC="pcryptohash-sha3.c"', "ALG_TYPE=PHashSHA3", "ALG_NEW=p_crypto_hash_sha3_224_new", "ALG_FREE=p_crypto_hash_sha3_free", "ALG_RESET=p_crypto_hash_sha3_reset"], canaries=2, functions=["p_crypto_hash_sha3_224_new", "p_crypto_hash_sha3_free", "pp_crypto_hash_sha3_new_internal"], cbmc_flags=["--unwind", "100", "--unwinding-assertions"],
      bound="fixed-size initialisation loops fully unwound: complete, unwinding assertions on"),
    U("hash_ctx_sha3_256", "h_hash_ctx", "misc2.c", ["pcryptohash-sha3.c"], defines=["UNIT_HASH_CTX", 'ALG_SRC="pcryptohash-sha3.c"', "ALG_TYPE=PHashSHA3", "ALG_NEW=p_crypto_hash_sha3_256_new", "ALG_FREE=p_crypto_hash_sha3_free", "ALG_RESET=p_crypto_hash_sha3_reset"], canaries=2, functions=["p_crypto_hash_sha3_256_new", "p_crypto_hash_sha3_free", "pp_crypto_hash_sha3_new_internal"], cbmc_flags=["--unwind", "100", "--unwinding-assertions"],
      bound="fixed-size initialisation loops fully unwound: complete, unwinding assertions on"),
    U("hash_ctx_sha3_384", "h_hash_ctx", "misc2.c", ["pcryptohash-sha3.c"], defines=["UNIT_HASH_CTX", 'ALG_SRC="pcryptohash-sha3.c"', "ALG_TYPE=PHashSHA3", "ALG_NEW=p_crypto_hash_sha3_384_new", "ALG_FREE=p_crypto_hash_sha3_free", "ALG_RESET=p_crypto_hash_sha3_reset"], canaries=2, functions=["p_crypto_hash_sha3_384_new", "p_crypto_hash_sha3_free", "pp_crypto_hash_sha3_new_internal"], cbmc_flags=["--unwind", "100", "--unwinding-assertions"],
      bound="fixed-size initialisation loops fully unwound: complete, unwinding assertions on"),
    U("hash_ctx_sha3_512", "h_hash_ctx", "misc2.c", ["pcryptohash-sha3.c"], defines=["UNIT_HASH_CTX", 'ALG_SRC="pcryptohash-sha3.c"', "ALG_TYPE=PHashSHA3", "ALG_NEW=p_crypto_hash_sha3_512_new", "ALG_FREE=p_crypto_hash_sha3_free", "ALG_RESET=p_crypto_hash_sha3_reset"], canaries=2, functions=["p_crypto_hash_sha3_512_new", "p_crypto_hash_sha3_free", "pp_crypto_hash_sha3_new_internal"], cbmc_flags=["--unwind", "100", "--unwinding-assertions"],
      bound="fixed-size initialisation loops fully unwound: complete, unwinding assertions on"),
    U("hash_ctx_gost3411", "h_hash_ctx", "misc2.c", ["pcryptohash-gost3411.c"], defines=["UNIT_HASH_CTX", 'ALG_SRC="pcryptohash-gost3411.c"', "ALG_TYPE=PHashGOST3411", "ALG_NEW=p_crypto_hash_gost3411_new", "ALG_FREE=p_crypto_hash_gost3411_free", "ALG_RESET=p_crypto_hash_gost3411_reset"], canaries=2, functions=["p_crypto_hash_gost3411_new", "p_crypto_hash_gost3411_free"], cbmc_flags=["--unwind", "100", "--unwinding-assertions"],
      bound="fixed-size initialisation loops fully unwound: complete, unwinding assertions on"),
    U("library_loader", "h_loader", "../C20/loader.c", ["plibraryloader-posix.c"], canaries=2, timeout=300, functions=["p_library_loader_new", "p_library_loader_free", "p_library_loader_get_last_error"], cbmc_flags=[]),
] + pick("C01", ["mutex_new_free"]) + pick("C02", ["posix_new_free"]) + pick("C03", ["cond_new_free"]) + pick("C05", ["current", "get_tls_key", "local_new_free", "create_full", "create_internal", "set_name_internal"]) + \
    pick("C06", ["new", "platform_key"]) + pick("C07", ["new"]) + pick("C08", ["new_free_own"]) + pick("C10", ["new", "accept"], "sock") + pick("C11", ["dispatch"]) + \
    pick("C12", ["bst_insert", "rb_insert", "avl_insert"], "trees") + pick("C15", ["insert", "list_append_prepend"]) + pick("C17", ["new_from_native", "new_any", "new_loopback", "new_text", "get_address"]) + pick("C09", ["receive_from"], "sock") + pick("C16", ["strchomp"])
REQUIRE_CONFIGURED = ["pmem.c", "pdir-posix.c"]
TECHNIQUE = "CBMC obligations on the real entry points with an allocator that fails nondeterministically at EVERY allocation (covers 'the k-th fails' and 'k-th and all later fail' for all k at once): pointer checks, failure value, allocation balance; container walkers bounded"
LEVEL_TEXT = ("pmem.c itself over a user allocator table that may fail (this justifies the allocator model used elsewhere); then per allocating entry point -- directory objects, errors, rwlock (general), library loader, tree / hash table / spinlock / time profiler constructors, the eleven hash context constructors, "
              "INI parse and the allocating INI getters, mutex/cond/rwlock/TLS/thread constructors, semaphore, shared memory (+ its semaphore), shm buffer, sockets (new/accept), hash dispatcher, tree insert (3 variants), hash table and list "
              "insert, socket addresses (native, any, loopback, text, to-text), receive_from's sender address, p_strchomp -- with every allocation allowed to fail: no invalid pointer use (CBMC pointer checks), the documented failure value, nothing allocated during the call stays "
              "allocated once the returned objects are freed, pre-existing objects intact (map/list views unchanged on failure). Loop-free constructors are unbounded; walkers are bounded (see bounds).")
LEVEL_NOTE = ("Coverage is a checked static fact (unit alloc_coverage, lib/alloc_scan.py, re-computed from /repo on every run): every function of the configured sources that calls p_malloc/p_malloc0/p_realloc/p_strdup "
              "directly is listed by a unit of this check; the one stated exception is p_ipc_unix_get_temp_dir (System V / IRIX key path, never taken by the configured POSIX code). A new allocating function without a unit makes the check UNDECIDED. "
              "Indirect allocation through p_list_append/prepend is covered where the caller owns freshly allocated data (INI parse and getters); hash-table listings only link existing pointers. "
              "Trusted: env models of the OS calls each unit uses. Bounded units inherit their bounds (trees H<=3, lists/tables L<=4, INI one 4-byte line, names of a few characters). The input regions of the known findings of C07 (existing segment of size 0) and C08 (existing buffer opened with a smaller size) are excluded from the shared units here; they are decided and reported under C07/C08. Functions that allocate only through p_list_append are not in that static list; of those, the hash-table listing functions have their own units (ht_listing_allocfail_*: table object of 2 buckets, <= 3 entries, every append may fail).")
