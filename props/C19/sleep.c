/* C19 -- p_uthread_sleep (puthread.c): transparent to any number of interruptions */
#include "env/verif.h"
#include "env/alloc.c"
#include "env/time.c"
#include "puthread.c"

/* the duration owed at entry is the requested one, written exactly as the code splits msec into a timespec; that this
 * pair denotes msec milliseconds ((ms/1000)*10^9 + (ms%1000)*10^6 == ms*10^6, nsec < 10^9) is the div/mod identity checked
 * exhaustively over all 2^32 values by the native unit sleep_identity */
pint
p_uthread_sleep (puint32 msec)
__CPROVER_requires (g_owed.tv_sec == (time_t) (msec / 1000) && g_owed.tv_nsec == (long) ((msec % 1000) * 1000000L))
__CPROVER_requires (g_sleep_calls == 0 && !g_sleep_other_error && !g_sleep_interrupted)
__CPROVER_assigns (g_owed, g_sleep_calls, g_sleep_other_error, g_sleep_interrupted, g_errno)
__CPROVER_ensures (__CPROVER_return_value == 0 || __CPROVER_return_value == -1)
/* returns 0 only when nothing of the requested time is owed any more, however often it was interrupted */
__CPROVER_ensures (__CPROVER_return_value == 0 ==> TS_ZERO (g_owed))
/* interruptions alone never make it fail */
__CPROVER_ensures (__CPROVER_return_value == -1 ==> g_sleep_other_error)
__CPROVER_ensures (g_sleep_calls >= 1)
;
void h_sleep (void)
{
	puint32 ms; pint r = p_uthread_sleep (ms);
	if (r == 0 && g_sleep_interrupted) CANARY ("completed after interruptions");
	if (r == 0 && !g_sleep_interrupted) CANARY ("completed undisturbed");
	if (r == -1) CANARY ("genuine error");
}
