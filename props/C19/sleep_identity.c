/* exhaustive native check (all 2^32 values) of the div/mod identity the sleep proof relies on:
 * the timespec p_uthread_sleep builds from msec denotes exactly msec milliseconds. */
#include <stdio.h>
#define TOTAL_NS(ms) ((unsigned long) ((ms) / 1000) * 1000000000ul + (unsigned long) ((ms) % 1000) * 1000000ul)
int main (void)
{
	unsigned long n = 0;
	for (unsigned long m = 0; m <= 0xfffffffful; m++) {
		unsigned ms = (unsigned) m;
		if (TOTAL_NS (ms) != (unsigned long) ms * 1000000ul || (ms % 1000) * 1000000ul >= 1000000000ul) { printf ("FAIL ms=%u\n", ms); return 1; }
		n++;
	}
	printf ("OK n=%lu\n", n);
	return 0;
}
