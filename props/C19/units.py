import os, sys, importlib.util
def _load(p, name):
    path = os.path.join(os.path.dirname(os.path.abspath(__file__)), "..", p, "units.py")
    s = importlib.util.spec_from_file_location(name, path); m = importlib.util.module_from_spec(s); s.loader.exec_module(m); return m
c06 = _load("C06", "c06u"); c07 = _load("C07", "c07u"); c09 = _load("C09", "c09u")
LEVEL = "proof"
SLEEP_INV = ("(result != 0 ==> (time_req.tv_sec == g_owed.tv_sec && time_req.tv_nsec == g_owed.tv_nsec)) && (result == 0 ==> (g_owed.tv_sec == 0 && g_owed.tv_nsec == 0 && g_sleep_calls >= 1)) && "
             "time_req.tv_sec >= 0 && time_req.tv_sec <= 4294968 && time_req.tv_nsec >= 0 && time_req.tv_nsec < 1000000000L && !g_sleep_other_error")
SLEEP = dict(id="sleep", harness="sleep.c", entry="h_sleep", sources=["puthread.c"], enforce="p_uthread_sleep", replace=[], canaries=3, timeout=600, cbmc_flags=["--sat-solver", "cadical"],
             loops={"puthread.c": {"p_uthread_sleep": {"nloops": 1, "0": [
                 "__CPROVER_assigns(result, err_code, time_req, time_rem, g_owed, g_sleep_calls, g_sleep_other_error, g_sleep_interrupted, g_errno)",
                 "__CPROVER_loop_invariant(%s)" % SLEEP_INV]}}},
             replay={"driver": "C19_replay.c", "mode": "sleep", "args": []})
def pick(mod, ids, prefix, hdir):
    out = []
    for u in mod.UNITS:
        if u["id"] in ids:
            v = dict(u); v["id"] = prefix + u["id"]
            h = v["harness"]
            if not h.startswith("../"):
                v["harness"] = "../%s/%s" % (hdir, h)
            if hdir == "C07": v["defines"] = list(v.get("defines", [])) + ["KF_EXCLUDE_C07_ZERO_SIZE_LEFTOVER"]   # region of C07's known finding: decided (and reported) under C07 only
            out.append(v)
    return out
IDENT = dict(id="sleep_identity", kind="native", harness="sleep_identity.c", entry="main", sources=[], what="(ms/1000)*10^9 + (ms%1000)*10^6 == ms*10^6 and nsec < 10^9 for all 2^32 ms", timeout=600)
UNITS = [SLEEP, IDENT] + pick(c06, ["acquire", "new", "lemma_recovery"], "sem_", "C06") + pick(c07, ["new", "lock_unlock"], "shm_", "C07") + \
        pick(c09, ["errmap", "io_condition_wait", "send", "receive", "send_to", "receive_from", "connect", "accept"], "sock_", "C09")
REQUIRE_CONFIGURED = ["puthread.c"]
TECHNIQUE = "CBMC function contracts with loop contracts on every EINTR retry loop of the real code (p_uthread_sleep, semaphore, shared memory, sockets): the number of interruptions is unbounded"
LEVEL_TEXT = ("p_uthread_sleep: for every duration and every sequence of interruptions (each reporting any remainder <= the request) the loop invariant 'remaining request + time slept "
              "= requested time' holds, so 0 is returned only after the full time and -1 only after a non-EINTR error. Semaphore acquire/create, shared-memory create/lock and every "
              "blocking socket call: the outcome contracts of C06/C07/C09 are proved with EINTR injected at every invocation of every blocking system call, any number of times; an "
              "interrupted-call error never reaches the caller and the unit/data is not lost.")
LEVEL_NOTE = ("Trusted: env/time.c (clock_nanosleep returns the error number and does not set errno; nanosleep sets errno; remainder <= request), the kernel models of C06/C07/C09. "
              "Real elapsed time is the kernel's: the proof shows the library requests exactly the remaining time after each interruption. The region of C07's known finding (existing segment of size 0) is excluded from the shared shm unit here and decided under C07.")
