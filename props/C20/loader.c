/* C20 -- plibraryloader-posix.c: the library handle is closed exactly once, also when the allocation fails */
/* TRUSTED: dlopen/dlclose/dlsym/dlerror and p_file_is_exists (call-log stubs); p_strdup for one-character strings over the allocator model */
#include "env/verif.h"
#include "env/alloc.c"
#include <dlfcn.h>
#include "pfile.h"
#include "pstring.h"
unsigned g_dlopens, g_dlcloses; _Bool g_dl_live; int g_dl_obj; const char *g_dl_path;
pboolean p_file_is_exists (const pchar *file) { return nondet_bool () ? TRUE : FALSE; }
void *dlopen (const char *path, int flags) { ENV_REQ (!g_dl_live, "one handle per loader"); g_dl_path = path; if (nondet_bool ()) return NULL; g_dlopens++; g_dl_live = 1; return &g_dl_obj; }
int dlclose (void *h) { ENV_REQ (h == (void *) &g_dl_obj && g_dl_live, "dlclose: the open handle, exactly once"); g_dlcloses++; g_dl_live = 0; return nondet_bool () ? 0 : 1; }
void *dlsym (void *h, const char *s) { ENV_REQ (h == (void *) &g_dl_obj && g_dl_live, "dlsym on the open handle"); return nondet_ptr (); }
static char g_dl_msg[2] = "e"; unsigned g_dlerrors;
char *dlerror (void) { g_dlerrors++; return nondet_bool () ? g_dl_msg : NULL; }
/* one-character messages: copy through the allocator model so that the block is counted */
pchar *p_strdup (const pchar *s) { pchar *r = p_malloc (2); if (r != NULL) { r[0] = s[0]; r[1] = 0; } return r; }
#include "plibraryloader-posix.c"
void h_loader (void)
{
	char path[2] = "p";
	g_alloc_may_fail = 1; g_alloc_failed = 0; g_allocs = g_frees = 0; g_dlopens = g_dlcloses = 0; g_dl_live = 0;
	PLibraryLoader *l = p_library_loader_new (path);
	if (l == NULL) { OBL (!g_dl_live && g_dlopens == g_dlcloses && g_allocs == g_frees, "failed new: a handle that was opened is closed again, nothing allocated"); CANARY ("new failed"); return; }
	OBL (g_dlopens == 1 && g_dl_live && g_dl_path == path, "one handle for the caller's path");
	p_library_loader_get_symbol (l, "s");
	pchar *msg = p_library_loader_get_last_error (l);
	OBL (msg == NULL || (msg[0] == 'e' && g_allocs == g_frees + 2), "last error: NULL or a copy the caller owns");
	p_free (msg);
	p_library_loader_free (l);
	OBL (!g_dl_live && g_dlcloses == 1 && g_allocs == g_frees, "free closes the handle exactly once and releases the object");
	p_library_loader_free (NULL);
	OBL (g_dlcloses == 1, "free(NULL) is a no-op");
	CANARY ("new/free");
}
