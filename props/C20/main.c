/* C20 -- pmain.c: p_libsys_init / p_libsys_shutdown pair every subsystem's init with its shutdown exactly once, in reverse
 * order (memory last: the others release blocks in their shutdown), however often init and shutdown are repeated. */
/* TRUSTED: the subsystem init/shutdown functions (call-log stubs here; p_uthread_init/shutdown verified in C05 unit init_shutdown, the others are empty or platform-specific no-ops on this configuration) */
#include "env/verif.h"
#include "pmem.h"
unsigned g_seq; unsigned g_at[16]; unsigned g_n[16];
#define LOG(i) do { g_n[i]++; g_at[i] = ++g_seq; } while (0)
void p_mem_init (void) { LOG (0); }            void p_mem_shutdown (void) { LOG (8); }
void p_atomic_thread_init (void) { LOG (1); }   void p_atomic_thread_shutdown (void) { LOG (9); }
void p_socket_init_once (void) { LOG (2); }     void p_socket_close_once (void) { LOG (10); }
void p_uthread_init (void) { LOG (3); }         void p_uthread_shutdown (void) { LOG (11); }
void p_cond_variable_init (void) { LOG (4); }   void p_cond_variable_shutdown (void) { LOG (12); }
void p_rwlock_init (void) { LOG (5); }          void p_rwlock_shutdown (void) { LOG (13); }
void p_time_profiler_init (void) { LOG (6); }   void p_time_profiler_shutdown (void) { LOG (14); }
void p_library_loader_init (void) { LOG (7); }  void p_library_loader_shutdown (void) { LOG (15); }
unsigned g_set_vtable; pboolean p_mem_set_vtable (const PMemVTable *t) { g_set_vtable++; return nondet_bool () ? TRUE : FALSE; }
#include "pmain.c"
static void clear (void) { g_seq = 0; for (int i = 0; i < 16; i++) { g_n[i] = 0; g_at[i] = 0; } }
void h_init_shutdown (void)
{
	unsigned i = nondet_uint (), j = nondet_uint (); __CPROVER_assume (i < 8 && j < 8);
	pp_plibsys_inited = FALSE; clear ();
	unsigned inits = nondet_uint (); __CPROVER_assume (inits >= 1 && inits <= 3);
	for (unsigned k = 0; k < inits; k++) p_libsys_init ();
	OBL (g_n[i] == 1 && g_n[8 + i] == 0, "however often init is called, every subsystem is initialised exactly once");
	OBL (i == 0 || g_at[0] < g_at[i], "the allocator is initialised before everything else");
	clear ();
	unsigned downs = nondet_uint (); __CPROVER_assume (downs >= 1 && downs <= 3);
	for (unsigned k = 0; k < downs; k++) p_libsys_shutdown ();
	OBL (g_n[8 + i] == 1 && g_n[i] == 0, "however often shutdown is called, every subsystem is shut down exactly once");
	OBL (i >= j || g_at[8 + i] > g_at[8 + j], "shutdown runs in the reverse order of init (the allocator last)");
	clear ();
	p_libsys_init ();
	OBL (g_n[i] == 1, "init after shutdown initialises again");
	clear (); p_libsys_shutdown (); pp_plibsys_inited = FALSE; clear ();
	p_libsys_shutdown ();
	OBL (g_seq == 0, "shutdown without init does nothing");
	PMemVTable vt;
	p_libsys_init_full (&vt);
	OBL (g_set_vtable == 1 && g_n[i] == 1, "init_full installs the allocator table, then initialises");
	OBL (p_libsys_version () != NULL, "version string");
	if (inits == 3 && downs == 3) CANARY ("repeated init and shutdown");
	CANARY ("end");
}
