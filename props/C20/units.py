import os, sys, importlib.util
def _load(p):
    path = os.path.join(os.path.dirname(os.path.abspath(__file__)), "..", p, "units.py")
    s = importlib.util.spec_from_file_location("u20_" + p, path); m = importlib.util.module_from_spec(s); s.loader.exec_module(m); return m
def pick(p, ids, hdir=None):
    out = []
    for u in _load(p).UNITS:
        if u["id"] in ids:
            v = dict(u); v["id"] = p.lower() + "_" + u["id"]
            if not v["harness"].startswith("../"):
                v["harness"] = "../%s/%s" % (hdir or p, v["harness"])
            if p == "C07": v["defines"] = list(v.get("defines", [])) + ["KF_EXCLUDE_C07_ZERO_SIZE_LEFTOVER"]   # regions of the C07/C08 known findings: decided (and reported) under C07/C08 only
            if p == "C08": v["defines"] = list(v.get("defines", [])) + ["KF_EXCLUDE_C08_OPEN_SMALLER_SIZE"]
            out.append(v)
    return out
LEVEL = "proof"
UNITS = [dict(id="library_loader", harness="loader.c", entry="h_loader", sources=["plibraryloader-posix.c"], enforce=None, replace=[], canaries=2, timeout=300,
              functions=["p_library_loader_new", "p_library_loader_free", "p_library_loader_get_symbol", "p_library_loader_get_last_error"]),
         dict(id="libsys_init_shutdown", harness="main.c", entry="h_init_shutdown", sources=["pmain.c"], enforce=None, replace=[], canaries=2, timeout=300, cbmc_flags=["--unwind", "17", "--unwinding-assertions"],
              functions=["p_libsys_init", "p_libsys_init_full", "p_libsys_shutdown"], bound="call-count loops of the harness (1..3 repetitions) and the 16-entry log fully unwound: complete for those repetition counts")] + \
    pick("C01", ["mutex_new_free"]) + pick("C02", ["posix_new_free"]) + pick("C03", ["cond_new_free"]) + pick("C05", ["unref", "local_new_free", "get_tls_key", "create_full", "create_internal", "init_shutdown"]) + \
    pick("C06", ["new", "free", "lemma_recovery"]) + pick("C07", ["new", "free", "take_ownership_free"]) + pick("C08", ["new_free_own"]) + \
    pick("C10", ["new", "accept", "close", "sys_close", "getters_and_free", "connect"], "sock") + pick("C11", ["dispatch"]) + pick("C17", ["new_text"]) + \
    pick("C18", ["dir", "error", "rwlock_general_new", "pmem_vtable", "ini_parse_allocfail", "ini_getter_allocfail_0", "ini_getter_allocfail_1", "ini_getter_allocfail_2", "ini_getter_allocfail_3", "tree_new", "hash_table_new", "time_profiler_new", "spinlock_new", "hash_ctx_md5", "hash_ctx_sha1", "hash_ctx_sha2_256", "hash_ctx_sha2_512", "hash_ctx_sha3_256", "hash_ctx_gost3411", "ht_listing_allocfail_0", "ht_listing_allocfail_1", "ht_listing_allocfail_2"]) + \
    pick("C12", ["bst_insert", "bst_remove", "clear"])   # containers own what they were handed with a notifier: a replaced / removed / cleared pair is released exactly once (C14 obligations), nodes are freed once
REQUIRE_CONFIGURED = ["plibraryloader-posix.c", "psocket.c", "pshm-posix.c", "psemaphore-posix.c"]
TECHNIQUE = "CBMC contracts with a resource ledger in the environment models (heap blocks via allocation counters, descriptors, mappings, IPC names, native handles): per constructor/destructor pair and every error exit the ledger delta is a postcondition"
LEVEL_TEXT = ("Per object kind, on the real code, for every outcome of every native call and with every allocation allowed to fail: a failed constructor leaves the ledger unchanged (no block, no "
              "descriptor, no mapping, no name created by the call); a successful one holds exactly what the object records; the destructor gives exactly that back -- descriptor closed exactly once "
              "(sockets incl. accept's error exits, shm descriptor closed right after mapping on all exits), munmap with the mapped length, shm/semaphore names unlinked by the owner only, native "
              "mutex/cond/rwlock/TLS/dl handles destroyed or closed once. Units are shared with C06/C07/C08/C10/C11/C17/C18 (same obligations, run under this property as well). Neutrality of "
              "an arbitrary call sequence is the sum over objects (paper step). Loop-free or loop-contracted units; the library-loader and p_libsys_init/shutdown units are new here.")
LEVEL_NOTE = ("Covered object kinds: sockets, shared memory (+ lock semaphore), semaphores, shm buffer, mutex/cond/rwlock, TLS keys, thread handles (reference count), hash objects, socket addresses "
              "from text (addrinfo), directories, errors, library loader, native thread handle (attribute object destroyed once), tree/hash table/spinlock/profiler/hash-context constructors, INI parse and getters. Container pairs (trees, lists, tables, INI) are bounded and run under C12/C15/C16/C18. Bounded units inside this check (never counted as proved): c18_dir and c18_error (names/messages of a few characters), c18_ini_* (INI parse of '[s]' + one 4-byte line; getters on one fixed object), c11_dispatch (hex loop unwound to its fixed maximum, complete). p_libsys_init/shutdown: pairing and order over call-log stubs (unit libsys_init_shutdown) plus the real p_uthread_init/shutdown (c05_init_shutdown); the other subsystem "
              "init/shutdown functions are empty on this configuration and are not verified. NOT covered: p_file/p_process; tree/hash-table/list container pairs beyond their constructors. Trusted: the ledger models in env/. The input regions of the known findings of C07 (existing segment of size 0) and C08 (existing buffer opened with a smaller size) are excluded from the shared units here; they are decided and reported under C07/C08. Containers: BST insert/remove/clear (bounded, as under C12/C14: a replaced, removed or cleared pair goes to its notifiers exactly once, every node is freed once) and the hash-table listing functions under allocation failure; the other container operations are decided under C12-C15 only.")
