/* contract of p_error_get_io_from_system enforced on the real perror.c (total, loop-free) */
/* the real source first: its own #include <errno.h> decides which E* cases exist (see DESIGN.md section 10, item 20) */
#include "perror.c"
#include "env/verif.h"
#include <errno.h>
#include <stddef.h>
#include "pmacros.h"
#include "ptypes.h"
PErrorIO p_error_get_io_from_system (pint err_code)
__CPROVER_assigns ()
__CPROVER_ensures (__CPROVER_return_value >= P_ERROR_IO_NONE && __CPROVER_return_value <= P_ERROR_IO_FAILED)
__CPROVER_ensures ((__CPROVER_return_value == P_ERROR_IO_NONE) == (err_code == 0))
__CPROVER_ensures ((__CPROVER_return_value == P_ERROR_IO_WOULD_BLOCK) == (err_code == EAGAIN || err_code == EWOULDBLOCK))
__CPROVER_ensures ((__CPROVER_return_value == P_ERROR_IO_IN_PROGRESS) == (err_code == EINPROGRESS || err_code == EALREADY))
__CPROVER_ensures (err_code == ETIMEDOUT ==> __CPROVER_return_value == P_ERROR_IO_TIMED_OUT)
__CPROVER_ensures (err_code == EINTR ==> __CPROVER_return_value == P_ERROR_IO_FAILED)
;
void h_errmap (void) { pint c; PErrorIO r = p_error_get_io_from_system (c); if (r == P_ERROR_IO_WOULD_BLOCK) CANARY ("would block"); if (r == P_ERROR_IO_FAILED) CANARY ("failed"); }
