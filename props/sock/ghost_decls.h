/* Declarations (no system header!) of the ghost state that the injected loop contracts of psocket.c mention, so that the
 * REAL sources can be the first thing the translation unit sees: whatever macros psocket.c relies on (EINTR, MSG_NOSIGNAL,
 * SOCK_CLOEXEC ...) must come from psocket.c's own #include lines, exactly as in the library build, and not from headers the
 * harness happened to include earlier.  The definitions are in env/sockets.c, env/errno_stub.c, env/perror_stub.c. */
#ifndef VERIF_SOCK_GHOST_DECLS_H
#define VERIF_SOCK_GHOST_DECLS_H
struct sockaddr;
extern int g_sock_fd, g_errno, g_xfer_errno, g_poll_rc, g_new_fd, g_send_flags, g_addr_family, g_err_code, g_err_native;
extern _Bool g_fd_live, g_xfer_ok, g_last_fail_poll, g_new_fd_live;
extern unsigned long g_native, g_polls, g_xfers, g_closes, g_accepts, g_connects;
extern long g_xfer_count;
extern const struct sockaddr *g_addr_arg;
extern unsigned int g_addr_len;      /* socklen_t */
extern unsigned g_err_calls;
int verif_fcntl (int fd, int cmd, long arg);
/* glibc declares the sockaddr parameters of these seven as transparent unions (_GNU_SOURCE); CBMC cannot match a call made
 * against that prototype with a model defined later with plain pointers, so the names are rebound (after <sys/socket.h> has
 * been read) to model functions with plain-pointer prototypes; env/sockets.c's definitions are renamed by the same macros */
int verif_accept (int fd, struct sockaddr *addr, unsigned int *alen);
int verif_connect (int fd, const struct sockaddr *addr, unsigned int alen);
int verif_bind (int fd, const struct sockaddr *addr, unsigned int alen);
int verif_getsockname (int fd, struct sockaddr *addr, unsigned int *alen);
int verif_getpeername (int fd, struct sockaddr *addr, unsigned int *alen);
long verif_sendto (int fd, const void *buf, unsigned long len, int flags, const struct sockaddr *addr, unsigned int alen);
long verif_recvfrom (int fd, void *buf, unsigned long len, int flags, struct sockaddr *addr, unsigned int *alen);
#define accept verif_accept
#define connect verif_connect
#define bind verif_bind
#define getsockname verif_getsockname
#define getpeername verif_getpeername
#define sendto verif_sendto
#define recvfrom verif_recvfrom
#endif
