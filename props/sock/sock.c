/* C09 / C10 / C19(sockets) / C20(sockets) -- contracts on the real functions of psocket.c.
 * One translation unit: env (alloc, error stub, BSD sockets) + the real psocketaddress.c
 * and psocket.c (scratch copies; loop contracts injected).  fcntl is variadic in libc and
 * is bound to a fixed-arity contract function for this unit only. */
/* the real sources come FIRST (see ghost_decls.h): their preprocessing context is the library's own */
#include <fcntl.h>            /* declares the variadic fcntl before the name is rebound; defines no errno macro */
#include <sys/types.h>
#include <sys/socket.h>       /* likewise for the seven calls with sockaddr parameters (see ghost_decls.h); no errno macro either */
#define fcntl verif_fcntl
#include "ghost_decls.h"
#include "psocket.c"           /* first: the other two sources include <errno.h> themselves and would lend it to psocket.c */
#include "psocketaddress.c"
#include "psysclose-unix.c"
#include "env/verif.h"
#include "env/alloc.c"
#include "env/perror_stub.c"
#include "env/sockets.c"
#include <signal.h>

/* ------------------------------------------------------------------ p_error_get_io_from_system
 * contract proved of the real perror.c in unit errmap (props/sock/errmap.c), used here by replacement */
#define ERRMAP_CONTRACT \
__CPROVER_assigns () \
__CPROVER_ensures (__CPROVER_return_value >= P_ERROR_IO_NONE && __CPROVER_return_value <= P_ERROR_IO_FAILED) \
__CPROVER_ensures ((__CPROVER_return_value == P_ERROR_IO_NONE) == (err_code == 0)) \
__CPROVER_ensures ((__CPROVER_return_value == P_ERROR_IO_WOULD_BLOCK) == (err_code == EAGAIN || err_code == EWOULDBLOCK)) \
__CPROVER_ensures ((__CPROVER_return_value == P_ERROR_IO_IN_PROGRESS) == (err_code == EINPROGRESS || err_code == EALREADY)) \
__CPROVER_ensures (err_code == ETIMEDOUT ==> __CPROVER_return_value == P_ERROR_IO_TIMED_OUT) \
__CPROVER_ensures (err_code == EINTR ==> __CPROVER_return_value == P_ERROR_IO_FAILED)
PErrorIO p_error_get_io_from_system (pint err_code) ERRMAP_CONTRACT;

/* ------------------------------------------------------------------ common predicates */
#define ERR_GHOSTS g_err_code, g_err_native, g_err_calls
#define ALLOC_GHOSTS g_alloc_failed, g_allocs, g_frees
/* socket object consistent with the ghost descriptor table */
#define WF_SOCK(s) (__CPROVER_is_fresh (s, sizeof (PSocket)) && (s)->fd == g_sock_fd && \
	((s)->closed ? ((s)->fd == -1 && !g_fd_live) : ((s)->fd >= 0 && g_fd_live)))
#define POLL_ARGS(s, ev) (g_poll_timeout == ((s)->timeout > 0 ? (s)->timeout : -1) && g_poll_events == (ev))
#define USER_BUF(p, len) (__CPROVER_is_fresh (p, 1) && g_user_buf == (const void *) (p) && g_user_len == (len))
/* a failed call reported a real reason: not the interrupted-call error (EINTR maps to P_ERROR_IO_FAILED with native code EINTR), and in blocking mode not a would-block of the transfer call */
#define REAL_REASON(s) (g_err_calls >= 1 && !(g_err_code == P_ERROR_IO_FAILED && g_err_native == EINTR) && \
	(!(s)->blocking || g_last_fail_poll || g_err_code != P_ERROR_IO_WOULD_BLOCK))
#define CLOSED_FAILS (g_native == 0 && g_closes == 0 && g_err_calls == 1 && g_err_code == P_ERROR_IO_NOT_AVAILABLE)

/* ------------------------------------------------------------------ io_condition_wait (relative form: used by replacement inside retry loops) */
pboolean
p_socket_io_condition_wait (const PSocket *socket, PSocketIOCondition condition, PError **error)
__CPROVER_requires (WF_SOCK (socket) && error == NULL)
__CPROVER_requires (POLL_ARGS (socket, condition == P_SOCKET_IO_CONDITION_POLLIN ? POLLIN : POLLOUT))
__CPROVER_assigns (g_errno, g_native, g_polls, g_poll_rc, g_last_fail_poll, ERR_GHOSTS)
__CPROVER_ensures (__CPROVER_return_value == TRUE || __CPROVER_return_value == FALSE)
/* closed: not-available, no descriptor touched */
__CPROVER_ensures (socket->closed ==> (__CPROVER_return_value == FALSE && g_native == __CPROVER_old (g_native) && g_polls == __CPROVER_old (g_polls) &&
	g_err_calls == __CPROVER_old (g_err_calls) + 1 && (__CPROVER_old (g_err_calls) != 0 || g_err_code == P_ERROR_IO_NOT_AVAILABLE)))
/* open: only polls, at least one, all with the timeout argument required by the poll contract */
__CPROVER_ensures (!socket->closed ==> (g_polls - __CPROVER_old (g_polls) >= 1 && g_native - __CPROVER_old (g_native) == g_polls - __CPROVER_old (g_polls)))
__CPROVER_ensures (!socket->closed ==> ((__CPROVER_return_value == TRUE) == (g_poll_rc == 1)))
/* 0 = the full timeout elapsed (poll's contract) => timed out; -1 => the real errno, never EINTR */
__CPROVER_ensures ((!socket->closed && __CPROVER_return_value == FALSE) ==> (g_err_calls == __CPROVER_old (g_err_calls) + 1 &&
	(__CPROVER_old (g_err_calls) != 0 || (g_poll_rc == 0 ? g_err_code == P_ERROR_IO_TIMED_OUT :
	 (g_poll_rc == -1 && g_last_fail_poll && g_errno != EINTR && g_err_native == g_errno)))))
__CPROVER_ensures (__CPROVER_return_value == TRUE ==> g_err_calls == __CPROVER_old (g_err_calls))
;

/* ------------------------------------------------------------------ transfers */
#define XFER_POST(s) \
/* >= 0: exactly the count of the ONE successful native transfer; -1: no native transfer succeeded (nothing sent or consumed and lost) */ \
__CPROVER_ensures (__CPROVER_return_value >= -1) \
__CPROVER_ensures (__CPROVER_return_value >= 0 ==> (g_xfer_ok && __CPROVER_return_value == g_xfer_count && g_err_calls == 0)) \
__CPROVER_ensures (__CPROVER_return_value == -1 ==> !g_xfer_ok) \
/* closed socket */ \
__CPROVER_ensures ((s)->closed ==> (__CPROVER_return_value == -1 && CLOSED_FAILS)) \
/* open socket failing: a real reason */ \
__CPROVER_ensures ((!(s)->closed && __CPROVER_return_value == -1) ==> REAL_REASON (s)) \
/* non-blocking: never waits */ \
__CPROVER_ensures (!(s)->blocking ==> g_polls == 0) \
__CPROVER_ensures (g_closes == 0 && g_fd_live == __CPROVER_old (g_fd_live))

pssize
p_socket_send (const PSocket *socket, const pchar *buffer, psize buflen, PError **error)
__CPROVER_requires (WF_SOCK (socket) && USER_BUF (buffer, buflen) && buflen >= 1 && error == NULL && SOCK_INIT && g_err_calls == 0)
__CPROVER_requires (POLL_ARGS (socket, POLLOUT))
__CPROVER_assigns (SOCK_GHOSTS, ERR_GHOSTS)
XFER_POST (socket)
;
pssize
p_socket_receive (const PSocket *socket, pchar *buffer, psize buflen, PError **error)
__CPROVER_requires (WF_SOCK (socket) && USER_BUF (buffer, buflen) && error == NULL && SOCK_INIT && g_err_calls == 0)
__CPROVER_requires (POLL_ARGS (socket, POLLIN))
__CPROVER_assigns (SOCK_GHOSTS, ERR_GHOSTS)
XFER_POST (socket)
;
pssize
p_socket_send_to (const PSocket *socket, PSocketAddress *address, const pchar *buffer, psize buflen, PError **error)
__CPROVER_requires (WF_SOCK (socket) && USER_BUF (buffer, buflen) && error == NULL && SOCK_INIT && g_err_calls == 0)
__CPROVER_requires (__CPROVER_is_fresh (address, sizeof (PSocketAddress)) && (address->family == P_SOCKET_FAMILY_INET || address->family == P_SOCKET_FAMILY_INET6))
__CPROVER_requires (POLL_ARGS (socket, POLLOUT))
__CPROVER_assigns (SOCK_GHOSTS, ERR_GHOSTS)
XFER_POST (socket)
/* the datagram goes to the caller's address */
__CPROVER_ensures (g_xfers >= 1 ==> (g_addr_len == (address->family == P_SOCKET_FAMILY_INET ? sizeof (struct sockaddr_in) : sizeof (struct sockaddr_in6)) &&
	g_addr_family == (address->family == P_SOCKET_FAMILY_INET ? AF_INET : AF_INET6)))
;
pssize
p_socket_receive_from (const PSocket *socket, PSocketAddress **address, pchar *buffer, psize buflen, PError **error)
__CPROVER_requires (WF_SOCK (socket) && USER_BUF (buffer, buflen) && buflen >= 1 && error == NULL && SOCK_INIT && g_err_calls == 0)
__CPROVER_requires (__CPROVER_is_fresh (address, sizeof (PSocketAddress *)))
__CPROVER_requires (POLL_ARGS (socket, POLLIN))
__CPROVER_assigns (SOCK_GHOSTS, ERR_GHOSTS, ALLOC_GHOSTS, *address)
XFER_POST (socket)
/* reports the sender's address exactly as the kernel delivered it */
__CPROVER_ensures ((__CPROVER_return_value >= 0 && *address != NULL) ==>
	((*address)->family == (PSocketFamily) ((const struct sockaddr *) g_from_bytes)->sa_family &&
	 (*address)->port == (puint16) ((g_from_bytes[2] << 8) | g_from_bytes[3]) &&
	 ((const puchar *) &(*address)->addr)[0] == g_from_bytes[(*address)->family == P_SOCKET_FAMILY_INET ? 4 : 8] &&
	 ((const puchar *) &(*address)->addr)[3] == g_from_bytes[(*address)->family == P_SOCKET_FAMILY_INET ? 7 : 11]))
__CPROVER_ensures ((__CPROVER_return_value >= 0 && !g_alloc_failed &&
	((((const struct sockaddr *) g_from_bytes)->sa_family == AF_INET && g_from_len >= sizeof (struct sockaddr_in)) ||
	 (((const struct sockaddr *) g_from_bytes)->sa_family == AF_INET6 && g_from_len >= sizeof (struct sockaddr_in6)))) ==> *address != NULL)
;

/* ------------------------------------------------------------------ connect / accept */
pboolean
p_socket_check_connect_result (PSocket *socket, PError **error)
__CPROVER_requires (WF_SOCK (socket) && !socket->closed && error == NULL && !g_getsockopt_fails)
__CPROVER_assigns (g_errno, g_native, g_sockopts, g_last_fail_poll, g_so_error_read_at_polls, ERR_GHOSTS, socket->connected)
__CPROVER_ensures ((__CPROVER_return_value == TRUE) == (g_so_error == 0))
__CPROVER_ensures (g_so_error_read_at_polls == g_polls)   /* ghost time stamp of the SO_ERROR read */
__CPROVER_ensures (__CPROVER_return_value == TRUE || __CPROVER_return_value == FALSE)
__CPROVER_ensures (socket->connected == (g_so_error == 0))
/* frame: 'connected' is a bit-field; an assigns target on it covers the whole storage unit, so the neighbours are pinned explicitly */
__CPROVER_ensures (socket->blocking == __CPROVER_old (socket->blocking) && socket->closed == __CPROVER_old (socket->closed) &&
	socket->listening == __CPROVER_old (socket->listening) && socket->keepalive == __CPROVER_old (socket->keepalive))
__CPROVER_ensures (__CPROVER_return_value == FALSE ==> g_err_calls == __CPROVER_old (g_err_calls) + 1)
/* the pending socket error is what gets reported */
__CPROVER_ensures ((__CPROVER_return_value == FALSE && __CPROVER_old (g_err_calls) == 0) ==> g_err_native == g_so_error)
__CPROVER_ensures (__CPROVER_return_value == TRUE ==> g_err_calls == __CPROVER_old (g_err_calls))
__CPROVER_ensures (g_native == __CPROVER_old (g_native) + 1 && g_polls == __CPROVER_old (g_polls))
;

pboolean
p_socket_connect (PSocket *socket, PSocketAddress *address, PError **error)
__CPROVER_requires (WF_SOCK (socket) && error == NULL && SOCK_INIT && g_err_calls == 0 && !g_getsockopt_fails)
__CPROVER_requires (g_so_error != EINTR)   /* env: SO_ERROR holds a connection error, never 'interrupted' */
__CPROVER_requires (__CPROVER_is_fresh (address, sizeof (PSocketAddress)) && (address->family == P_SOCKET_FAMILY_INET || address->family == P_SOCKET_FAMILY_INET6))
__CPROVER_requires (POLL_ARGS (socket, POLLOUT))
__CPROVER_assigns (SOCK_GHOSTS, ERR_GHOSTS, socket->connected)
__CPROVER_ensures (__CPROVER_return_value == TRUE || __CPROVER_return_value == FALSE)
__CPROVER_ensures (socket->closed ==> (__CPROVER_return_value == FALSE && CLOSED_FAILS))
/* TRUE: the connection is established (connect returned 0, or SO_ERROR == 0 after the wait) and the getter says so */
__CPROVER_ensures (__CPROVER_return_value == TRUE ==> socket->connected)
__CPROVER_ensures (__CPROVER_return_value == TRUE ==> (g_xfer_ok || (g_polls >= 1 && g_poll_rc == 1 && g_so_error == 0)))
/* the outcome of an asynchronous connect is read AFTER the wait reported writability (before that SO_ERROR is still 0 whatever happens later) */
__CPROVER_ensures ((__CPROVER_return_value == TRUE && !g_xfer_ok) ==> g_so_error_read_at_polls >= 1)
/* EINTR transparency: an interrupted connect() is issued again (in the fault model of C19 an interrupted call has done nothing); the call never goes on to wait for a connect() whose last answer was EINTR */
__CPROVER_ensures ((__CPROVER_return_value == TRUE && !g_xfer_ok) ==> g_xfer_errno != EINTR)
__CPROVER_ensures ((!socket->closed && __CPROVER_return_value == FALSE) ==> (g_err_calls >= 1 && !(g_err_code == P_ERROR_IO_FAILED && g_err_native == EINTR)))
/* non-blocking: in-progress is reported at once, no waiting */
__CPROVER_ensures (!socket->blocking ==> g_polls == 0)
__CPROVER_ensures ((!socket->closed && !socket->blocking && !g_xfer_ok && (g_xfer_errno == EINPROGRESS || g_xfer_errno == EAGAIN)) ==>
	(__CPROVER_return_value == FALSE && g_err_code == (g_xfer_errno == EINPROGRESS ? P_ERROR_IO_IN_PROGRESS : P_ERROR_IO_WOULD_BLOCK)))
__CPROVER_ensures (g_closes == 0)
;

PSocket *
p_socket_accept (const PSocket *socket, PError **error)
__CPROVER_requires (WF_SOCK (socket) && error == NULL && SOCK_INIT && g_err_calls == 0)
__CPROVER_requires (POLL_ARGS (socket, POLLIN))
__CPROVER_assigns (SOCK_GHOSTS, ERR_GHOSTS, ALLOC_GHOSTS)
__CPROVER_ensures (socket->closed ==> (__CPROVER_return_value == NULL && CLOSED_FAILS))
/* the accepted descriptor is wrapped, or closed -- never both, never neither */
__CPROVER_ensures (__CPROVER_return_value != NULL ==> (g_xfer_ok && __CPROVER_is_fresh (__CPROVER_return_value, sizeof (PSocket)) &&
	__CPROVER_return_value->fd == g_new_fd && g_new_fd_live && g_closes == 0))
__CPROVER_ensures (__CPROVER_return_value == NULL ==> (!g_new_fd_live || g_close_failed))
__CPROVER_ensures ((__CPROVER_return_value == NULL && g_xfer_ok) ==> g_closes == 1)
/* new socket: close-on-exec, kernel-level non-blocking, library-level defaults */
__CPROVER_ensures (__CPROVER_return_value != NULL ==> (g_new_fd_cloexec && g_new_fd_nonblock &&
	__CPROVER_return_value->blocking && __CPROVER_return_value->timeout == 0 && __CPROVER_return_value->listen_backlog == P_SOCKET_DEFAULT_BACKLOG &&
	!__CPROVER_return_value->closed && !__CPROVER_return_value->listening && __CPROVER_return_value->protocol == socket->protocol))
__CPROVER_ensures ((!socket->closed && __CPROVER_return_value == NULL && !g_xfer_ok) ==> REAL_REASON (socket))
__CPROVER_ensures (!socket->blocking ==> g_polls == 0)
__CPROVER_ensures (g_fd_live == __CPROVER_old (g_fd_live))
;

/* ------------------------------------------------------------------ harnesses (canaries on scalars / ghosts only) */
void h_io_wait (void)
{
	const PSocket *s; PSocketIOCondition c; PError **e;
	pboolean r = p_socket_io_condition_wait (s, c, e);
	if (r) CANARY ("ready");
	if (!r && g_poll_rc == 0 && g_polls > 0) CANARY ("timed out");
	if (!r && g_polls == 0) CANARY ("closed");
	if (!r && g_poll_rc == -1 && g_polls > 0) CANARY ("poll error");
}
#define H_XFER(name, call) void h_##name (void) { const PSocket *s; pchar *b; psize n; PError **e; PSocketAddress *a; PSocketAddress **pa; \
	pssize r = call; \
	if (r > 0) CANARY (#name ": transferred"); if (r == 0) CANARY (#name ": zero count"); \
	if (r < 0 && g_native == 0) CANARY (#name ": closed"); if (r < 0 && g_xfers > 0) CANARY (#name ": transfer error"); \
	if (r >= 0 && g_polls > 1) CANARY (#name ": success after repeated waits"); if (g_polls == 0 && g_xfers >= 1) CANARY (#name ": non-blocking"); }
H_XFER (send, p_socket_send (s, b, n, e))
H_XFER (receive, p_socket_receive (s, b, n, e))
H_XFER (send_to, p_socket_send_to (s, a, b, n, e))
H_XFER (receive_from, p_socket_receive_from (s, pa, b, n, e))
void h_check_connect_result (void) { PSocket *s; PError **e; pboolean r = p_socket_check_connect_result (s, e); if (r) CANARY ("connected"); else CANARY ("failed"); }
void h_connect (void)
{
	PSocket *s; PSocketAddress *a; PError **e;
	pboolean r = p_socket_connect (s, a, e);
	if (r && g_polls == 0) CANARY ("connected at once");
	if (r && g_polls > 0) CANARY ("connected after wait");
	if (!r && g_native == 0) CANARY ("closed");
	if (!r && g_connects == 1 && g_polls == 0) CANARY ("failed without wait");
	if (!r && g_polls > 0) CANARY ("failed after wait");
}
void h_accept (void)
{
	const PSocket *s; PError **e;
	PSocket *r = p_socket_accept (s, e);
	if (r) CANARY ("accepted");
	if (!r && g_xfer_ok) CANARY ("accepted descriptor closed again after a later failure");
	if (!r && g_native == 0) CANARY ("closed");
	if (!r && !g_xfer_ok && g_accepts > 0) CANARY ("accept error");
}

/* ================================================================== C10: modes, lifecycle, descriptor flags */
#define BOOLV(r) ((r) == TRUE || (r) == FALSE)
/* frame helper for bit-field neighbours */
#define SAME_FLAGS_EXCEPT_CONNECTED(s) ((s)->blocking == __CPROVER_old ((s)->blocking) && (s)->closed == __CPROVER_old ((s)->closed) && \
	(s)->listening == __CPROVER_old ((s)->listening) && (s)->keepalive == __CPROVER_old ((s)->keepalive))

PSocket *
p_socket_new (PSocketFamily family, PSocketType type, PSocketProtocol protocol, PError **error)
__CPROVER_requires (error == NULL && SOCK_INIT && g_err_calls == 0 && !g_fd_live)
__CPROVER_assigns (SOCK_GHOSTS, ERR_GHOSTS, ALLOC_GHOSTS)
/* success: one descriptor, open, close-on-exec, kernel non-blocking; getters report the defaults */
__CPROVER_ensures (__CPROVER_return_value != NULL ==> (__CPROVER_is_fresh (__CPROVER_return_value, sizeof (PSocket)) &&
	g_socket_calls == 1 && g_new_fd_live && __CPROVER_return_value->fd == g_new_fd && g_new_fd_cloexec && g_new_fd_nonblock && g_closes == 0))
__CPROVER_ensures (__CPROVER_return_value != NULL ==> (__CPROVER_return_value->blocking && __CPROVER_return_value->timeout == 0 &&
	__CPROVER_return_value->listen_backlog == P_SOCKET_DEFAULT_BACKLOG && !__CPROVER_return_value->closed && !__CPROVER_return_value->connected &&
	!__CPROVER_return_value->listening && !__CPROVER_return_value->keepalive &&
	__CPROVER_return_value->family == family && __CPROVER_return_value->type == type && __CPROVER_return_value->protocol == protocol))
/* failure: no descriptor stays open, error reported */
__CPROVER_ensures (__CPROVER_return_value == NULL ==> ((!g_new_fd_live || g_close_failed) && g_err_calls >= 1 && g_allocs - __CPROVER_old (g_allocs) == g_frees - __CPROVER_old (g_frees)))
__CPROVER_ensures (g_socket_calls <= 1 && g_closes <= 1)
;

pboolean
p_socket_close (PSocket *socket, PError **error)
__CPROVER_requires (WF_SOCK (socket) && error == NULL && SOCK_INIT && g_err_calls == 0)
__CPROVER_assigns (SOCK_GHOSTS, ERR_GHOSTS, socket->fd, socket->connected)
__CPROVER_ensures (BOOLV (__CPROVER_return_value))
/* idempotent: closing a closed socket succeeds without touching any descriptor */
__CPROVER_ensures (__CPROVER_old (socket->closed) ==> (__CPROVER_return_value == TRUE && g_closes == 0 && g_native == 0 && socket->closed && socket->fd == -1))
/* open socket: the descriptor is closed exactly once; afterwards closed, not connected, not listening, fd forgotten */
__CPROVER_ensures (!__CPROVER_old (socket->closed) ==> g_closes == 1)
__CPROVER_ensures ((!__CPROVER_old (socket->closed) && __CPROVER_return_value == TRUE) ==> (!g_fd_live && socket->closed && !socket->connected && !socket->listening && socket->fd == -1))
__CPROVER_ensures ((!__CPROVER_old (socket->closed) && __CPROVER_return_value == FALSE) ==> (g_close_failed && g_fd_live && !socket->closed && socket->fd == g_sock_fd && g_err_calls == 1))
__CPROVER_ensures (socket->blocking == __CPROVER_old (socket->blocking) && socket->keepalive == __CPROVER_old (socket->keepalive))
;

/* every operation that reports errors fails on a closed socket with NOT_AVAILABLE and no native call */
pboolean
p_socket_bind (const PSocket *socket, PSocketAddress *address, pboolean allow_reuse, PError **error)
__CPROVER_requires (WF_SOCK (socket) && error == NULL && SOCK_INIT && g_err_calls == 0)
__CPROVER_requires (__CPROVER_is_fresh (address, sizeof (PSocketAddress)) && (address->family == P_SOCKET_FAMILY_INET || address->family == P_SOCKET_FAMILY_INET6))
__CPROVER_assigns (SOCK_GHOSTS, ERR_GHOSTS)
__CPROVER_ensures (BOOLV (__CPROVER_return_value))
__CPROVER_ensures (socket->closed ==> (__CPROVER_return_value == FALSE && CLOSED_FAILS))
__CPROVER_ensures (!socket->closed ==> (g_binds == 1 && g_addr_len == (address->family == P_SOCKET_FAMILY_INET ? sizeof (struct sockaddr_in) : sizeof (struct sockaddr_in6)) &&
	g_addr_family == (address->family == P_SOCKET_FAMILY_INET ? AF_INET : AF_INET6)))
__CPROVER_ensures ((!socket->closed && __CPROVER_return_value == FALSE) ==> g_err_calls == 1)
__CPROVER_ensures (g_closes == 0)
;
pboolean
p_socket_listen (PSocket *socket, PError **error)
__CPROVER_requires (WF_SOCK (socket) && error == NULL && SOCK_INIT && g_err_calls == 0)
__CPROVER_assigns (SOCK_GHOSTS, ERR_GHOSTS, socket->listening)
__CPROVER_ensures (BOOLV (__CPROVER_return_value))
__CPROVER_ensures (socket->closed ==> (__CPROVER_return_value == FALSE && CLOSED_FAILS))
__CPROVER_ensures (!socket->closed ==> (g_listens == 1 && g_listen_backlog_arg == socket->listen_backlog && g_native == 1))
__CPROVER_ensures (__CPROVER_return_value == TRUE ==> socket->listening)
__CPROVER_ensures (__CPROVER_return_value == FALSE ==> (socket->listening == __CPROVER_old (socket->listening) && g_err_calls == 1))
__CPROVER_ensures (socket->blocking == __CPROVER_old (socket->blocking) && socket->closed == __CPROVER_old (socket->closed) &&
	socket->connected == __CPROVER_old (socket->connected) && socket->keepalive == __CPROVER_old (socket->keepalive))
;
pboolean
p_socket_shutdown (PSocket *socket, pboolean shutdown_read, pboolean shutdown_write, PError **error)
__CPROVER_requires (WF_SOCK (socket) && error == NULL && SOCK_INIT && g_err_calls == 0 && BOOLV (shutdown_read) && BOOLV (shutdown_write))
__CPROVER_assigns (SOCK_GHOSTS, ERR_GHOSTS, socket->connected)
__CPROVER_ensures (BOOLV (__CPROVER_return_value))
__CPROVER_ensures (socket->closed ==> (__CPROVER_return_value == FALSE && CLOSED_FAILS))
__CPROVER_ensures ((!socket->closed && !shutdown_read && !shutdown_write) ==> (__CPROVER_return_value == TRUE && g_native == 0))
__CPROVER_ensures ((!socket->closed && (shutdown_read || shutdown_write)) ==> (g_shutdowns == 1 && g_native == 1 &&
	g_shutdown_how == (shutdown_read && shutdown_write ? SHUT_RDWR : shutdown_read ? SHUT_RD : SHUT_WR)))
/* connected getter: cleared exactly by a successful shutdown of both directions */
__CPROVER_ensures (socket->connected == ((__CPROVER_return_value == TRUE && shutdown_read && shutdown_write && !socket->closed) ? 0 : __CPROVER_old (socket->connected)))
__CPROVER_ensures (SAME_FLAGS_EXCEPT_CONNECTED (socket) && g_closes == 0)
;
pboolean
p_socket_set_buffer_size (const PSocket *socket, PSocketDirection dir, psize size, PError **error)
__CPROVER_requires (WF_SOCK (socket) && error == NULL && SOCK_INIT && g_err_calls == 0)
__CPROVER_assigns (SOCK_GHOSTS, ERR_GHOSTS)
__CPROVER_ensures (socket->closed ==> (__CPROVER_return_value == FALSE && CLOSED_FAILS))
__CPROVER_ensures (!socket->closed ==> (g_native == 1 && g_setsockopt_name == (dir == P_SOCKET_DIRECTION_RCV ? SO_RCVBUF : SO_SNDBUF) &&
	((__CPROVER_return_value == TRUE) == !!g_setsockopt_ok)))
;

/* setters / getters always reflect the calls made so far */
void
p_socket_set_timeout (PSocket *socket, pint timeout)
__CPROVER_requires (__CPROVER_is_fresh (socket, sizeof (PSocket)))
__CPROVER_assigns (socket->timeout)
__CPROVER_ensures (socket->timeout == (timeout < 0 ? 0 : timeout))
;
void
p_socket_set_blocking (PSocket *socket, pboolean blocking)
__CPROVER_requires (__CPROVER_is_fresh (socket, sizeof (PSocket)))
__CPROVER_assigns (socket->blocking)
__CPROVER_ensures (socket->blocking == (blocking != 0))
__CPROVER_ensures (socket->closed == __CPROVER_old (socket->closed) && socket->connected == __CPROVER_old (socket->connected) &&
	socket->listening == __CPROVER_old (socket->listening) && socket->keepalive == __CPROVER_old (socket->keepalive))
;
void
p_socket_set_listen_backlog (PSocket *socket, pint backlog)
__CPROVER_requires (__CPROVER_is_fresh (socket, sizeof (PSocket)))
__CPROVER_assigns (socket->listen_backlog)
__CPROVER_ensures (socket->listen_backlog == (socket->listening ? __CPROVER_old (socket->listen_backlog) : backlog))
;
void
p_socket_set_keepalive (PSocket *socket, pboolean keepalive)
__CPROVER_requires (WF_SOCK (socket) && !socket->closed && SOCK_INIT)
__CPROVER_assigns (SOCK_GHOSTS, socket->keepalive)
/* the getter changes only when the kernel accepted the option */
__CPROVER_ensures (socket->keepalive == ((__CPROVER_old (socket->keepalive) != (keepalive != 0) && g_setsockopt_ok) ? (keepalive != 0) : __CPROVER_old (socket->keepalive)))
__CPROVER_ensures (__CPROVER_old (socket->keepalive) == (keepalive != 0) ==> g_native == 0)
__CPROVER_ensures (__CPROVER_old (socket->keepalive) != (keepalive != 0) ==> (g_native == 1 && g_setsockopt_name == SO_KEEPALIVE && g_setsockopt_val == (keepalive != 0)))
__CPROVER_ensures (socket->closed == __CPROVER_old (socket->closed) && socket->connected == __CPROVER_old (socket->connected) &&
	socket->listening == __CPROVER_old (socket->listening) && socket->blocking == __CPROVER_old (socket->blocking))
;

#define H_S(name, decl, call, c1, c2) void h_##name (void) { decl; call; c1; c2; }
void h_new (void)
{
	PSocketFamily f; PSocketType t; PSocketProtocol p; PError **e;
	PSocket *r = p_socket_new (f, t, p, e);
	if (r) CANARY ("created");
	if (!r && g_socket_calls == 0) CANARY ("rejected arguments");
	if (!r && g_socket_calls == 1 && g_closes == 1) CANARY ("descriptor closed again after a later failure");
	if (!r && g_socket_calls == 1 && g_closes == 0) CANARY ("socket() failed");
}
/* p_sys_close: exactly ONE close() per call, whatever it returns (Linux releases the descriptor even when close() reports
 * EINTR, so a retry would close a number that may already belong to somebody else); the result is passed through */
pint
p_sys_close (pint fd)
__CPROVER_requires (SOCK_INIT && fd == g_sock_fd && g_fd_live && fd >= 0)
__CPROVER_assigns (SOCK_GHOSTS)
__CPROVER_ensures (g_closes == 1)
__CPROVER_ensures ((__CPROVER_return_value == 0) == !g_fd_live && (__CPROVER_return_value == 0 || __CPROVER_return_value == -1))
;
void h_sys_close (void) { pint fd; pint r = p_sys_close (fd); if (r == 0) CANARY ("closed"); else CANARY ("close failed"); }
void h_close (void) { PSocket *s; PError **e; pboolean r = p_socket_close (s, e); if (r && g_closes == 1) CANARY ("closed"); if (r && g_closes == 0) CANARY ("already closed"); if (!r) CANARY ("close failed"); }
void h_bind (void) { const PSocket *s; PSocketAddress *a; pboolean ar; PError **e; pboolean r = p_socket_bind (s, a, ar, e); if (r) CANARY ("bound"); if (!r && g_native == 0) CANARY ("closed"); if (!r && g_binds == 1) CANARY ("bind failed"); }
void h_listen (void) { PSocket *s; PError **e; pboolean r = p_socket_listen (s, e); if (r) CANARY ("listening"); if (!r && g_native == 0) CANARY ("closed"); if (!r && g_native == 1) CANARY ("listen failed"); }
void h_shutdown (void) { PSocket *s; pboolean a, b; PError **e; pboolean r = p_socket_shutdown (s, a, b, e); if (r && g_native == 1) CANARY ("shut down"); if (r && g_native == 0) CANARY ("nothing to do"); if (!r && g_native == 0) CANARY ("closed"); if (!r && g_native == 1) CANARY ("failed"); }
void h_set_buffer_size (void) { const PSocket *s; PSocketDirection d; psize n; PError **e; pboolean r = p_socket_set_buffer_size (s, d, n, e); if (r) CANARY ("set"); if (!r && g_native == 0) CANARY ("closed"); if (!r && g_native == 1) CANARY ("failed"); }
void h_set_timeout (void) { PSocket *s; pint t; p_socket_set_timeout (s, t); if (t < 0) CANARY ("negative"); else CANARY ("non-negative"); }
void h_set_blocking (void) { PSocket *s; pboolean b; p_socket_set_blocking (s, b); CANARY ("end"); }
void h_set_listen_backlog (void) { PSocket *s; pint b; p_socket_set_listen_backlog (s, b); CANARY ("end"); }
void h_set_keepalive (void) { PSocket *s; pboolean k; p_socket_set_keepalive (s, k); if (g_native == 1) CANARY ("changed via setsockopt"); else CANARY ("no change"); }

/* address getters: exactly one getsockname (local) / getpeername (remote) on the socket's own live descriptor with room for any
 * address; the result is the kernel's answer converted by the real p_socket_address_new_from_native (family, port, IPv4 address);
 * failure = NULL with exactly one error report and nothing left allocated.  Open sockets only: on a closed socket the real code
 * passes fd -1 to the kernel (EBADF), which the descriptor model does not accept as a call "on a live descriptor" -- not an I/O call
 * in the sense of C10, left outside this unit and stated in the level note. */
void h_get_addresses (void)
{
	PSocket *s = malloc (sizeof (PSocket));
	__CPROVER_assume (s != NULL);
	_Bool remote = nondet_bool ();
	g_sock_fd = s->fd; g_fd_live = 1; g_closes = 0; g_native = 0; g_allocs = 1; g_frees = 0; g_err_calls = 0; g_new_fd_live = 0; g_getsockname_calls = 0; g_getpeername_calls = 0;
	__CPROVER_assume (!s->closed && s->fd >= 0);
	PSocket s0 = *s;
	PSocketAddress *a = remote ? p_socket_get_remote_address (s, NULL) : p_socket_get_local_address (s, NULL);
	OBL (g_native == 1 && g_getsockname_calls == (remote ? 0 : 1) && g_getpeername_calls == (remote ? 1 : 0), "address getter: exactly one native call, getsockname for the local and getpeername for the remote address");
	OBL (g_closes == 0 && s->fd == s0.fd && s->closed == s0.closed && s->connected == s0.connected && s->blocking == s0.blocking && s->timeout == s0.timeout, "address getter: the socket is not changed");
	if (a == NULL) {
		OBL (g_err_calls == 1, "address getter: failure is reported exactly once");
		OBL (g_allocs - 1 == g_frees, "address getter: nothing stays allocated on failure");
		if (!g_name_ok) CANARY ("native call failed"); else CANARY ("kernel answer not convertible");
	} else {
		OBL (g_name_ok && g_err_calls == 0, "address getter: an address is returned only when the kernel gave one, without an error report");
		const struct sockaddr *k = (const struct sockaddr *) g_name_bytes;
		OBL ((a->family == P_SOCKET_FAMILY_INET && k->sa_family == AF_INET) || (a->family == P_SOCKET_FAMILY_INET6 && k->sa_family == AF_INET6), "address getter: the family is the kernel's");
		if (k->sa_family == AF_INET) {
			const struct sockaddr_in *k4 = (const struct sockaddr_in *) g_name_bytes;
			OBL (a->port == (puint16) (((k4->sin_port & 0xff) << 8) | (k4->sin_port >> 8)) && a->addr.sin_addr.s_addr == k4->sin_addr.s_addr, "address getter: IPv4 port (host order) and address are the kernel's");
			CANARY ("IPv4");
		} else {
			const struct sockaddr_in6 *k6 = (const struct sockaddr_in6 *) g_name_bytes;
			OBL (a->port == (puint16) (((k6->sin6_port & 0xff) << 8) | (k6->sin6_port >> 8)), "address getter: IPv6 port (host order) is the kernel's");
			CANARY ("IPv6");
		}
		OBL (g_allocs - 1 == g_frees + 1, "address getter: exactly the returned object is allocated");
	}
	OBL (p_socket_get_local_address (NULL, NULL) == NULL && p_socket_get_remote_address (NULL, NULL) == NULL && g_native == 1, "address getters of a NULL socket: NULL without a native call");
}

/* getters + NULL handling + free: a small history lemma over the real code */
void h_getters_and_free (void)
{
	PSocket *s = malloc (sizeof (PSocket));
	__CPROVER_assume (s != NULL);
	g_sock_fd = s->fd; g_fd_live = !s->closed; g_closes = 0; g_native = 0; g_allocs = 1; g_frees = 0; g_close_failed = 0; g_err_calls = 0; g_new_fd_live = 0;
	__CPROVER_assume (s->closed ? s->fd == -1 : s->fd >= 0);
	OBL (p_socket_get_fd (s) == s->fd && p_socket_get_timeout (s) == s->timeout && p_socket_get_listen_backlog (s) == s->listen_backlog, "fd/timeout/backlog getters");
	OBL ((p_socket_get_blocking (s) != 0) == (s->blocking != 0) && (p_socket_get_keepalive (s) != 0) == (s->keepalive != 0), "blocking/keepalive getters");
	OBL ((p_socket_is_connected (s) != 0) == (s->connected != 0) && (p_socket_is_closed (s) != 0) == (s->closed != 0), "connected/closed getters");
	OBL (p_socket_get_family (s) == s->family && p_socket_get_type (s) == s->type && p_socket_get_protocol (s) == s->protocol, "family/type/protocol getters");
	OBL (p_socket_get_fd (NULL) == -1 && p_socket_is_closed (NULL) == TRUE && p_socket_is_connected (NULL) == FALSE && p_socket_get_timeout (NULL) == -1, "NULL socket getters");
	OBL (g_native == 0, "getters touch no descriptor");
	_Bool was_closed = s->closed;
	p_socket_free (s);
	/* each descriptor the library holds is closed exactly once, the object released */
	OBL (g_closes == (was_closed ? 0 : 1) && (!g_fd_live || g_close_failed) && g_frees == 1, "free: descriptor closed once (unless already closed), object released");
	p_socket_free (NULL);
	OBL (g_closes == (was_closed ? 0 : 1), "free(NULL) is a no-op");
	CANARY ("end");
}
