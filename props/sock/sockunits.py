"""socket obligation units shared by C09, C10, C19, C20"""
SRC = ["psocket.c", "psocketaddress.c", "psysclose-unix.c"]
XG = "g_addr_family, g_errno, g_native, g_polls, g_poll_rc, g_last_fail_poll, g_xfers, g_xfer_ok, g_xfer_count, g_xfer_errno, g_send_flags, g_addr_arg, g_addr_len, g_err_code, g_err_native, g_err_calls"
XINV = "!g_xfer_ok && g_err_calls == 0 && g_closes == 0 && g_fd_live && (socket->blocking || g_polls == 0)"
def xloop(extra_assigns):
    return {"nloops": 1, "0": ["__CPROVER_assigns(ret, err_code, sock_err, %s%s)" % (XG, extra_assigns), "__CPROVER_loop_invariant(%s)" % XINV]}
LOOPS = {"psocket.c": {
    "p_socket_io_condition_wait": {"nloops": 2, "0": [
        "__CPROVER_assigns(evret, g_errno, g_native, g_polls, g_poll_rc, g_last_fail_poll)",
        "__CPROVER_loop_invariant(g_err_calls == __CPROVER_loop_entry(g_err_calls) && g_polls >= __CPROVER_loop_entry(g_polls) && g_native >= __CPROVER_loop_entry(g_native) && g_native - __CPROVER_loop_entry(g_native) == g_polls - __CPROVER_loop_entry(g_polls))"]},
    "p_socket_send": xloop(""), "p_socket_receive": xloop(""), "p_socket_send_to": {"nloops": 1, "0": ["__CPROVER_assigns(ret, err_code, sock_err, %s)" % XG,
        "__CPROVER_loop_invariant(%s && (g_xfers == 0 || (g_addr_len == optlen && g_addr_family == ((struct sockaddr *) &sa)->sa_family)))" % XINV]},
    "p_socket_receive_from": {"nloops": 1, "0": ["__CPROVER_assigns(ret, err_code, sock_err, optlen, __CPROVER_object_whole(&sa), %s)" % XG,
        "__CPROVER_loop_invariant(%s && optlen == sizeof (struct sockaddr_storage))" % XINV]},
    "p_socket_connect": {"nloops": 1, "0": [
        "__CPROVER_assigns(conn_result, err_code, g_errno, g_native, g_connects, g_xfer_ok, g_xfer_errno, g_last_fail_poll, g_addr_arg, g_addr_len, g_addr_family)",
        "__CPROVER_loop_invariant(!g_xfer_ok && g_polls == 0 && g_err_calls == 0 && g_closes == 0 && g_native == g_connects && g_fd_live)"]},
    "p_socket_accept": {"nloops": 1, "0": [
        "__CPROVER_assigns(res, err_code, sock_err, g_errno, g_native, g_polls, g_poll_rc, g_last_fail_poll, g_accepts, g_xfer_ok, g_xfer_count, g_xfer_errno, g_new_fd, g_new_fd_live, g_err_code, g_err_native, g_err_calls)",
        "__CPROVER_loop_invariant(!g_xfer_ok && !g_new_fd_live && g_err_calls == 0 && g_closes == 0 && g_fd_live && (socket->blocking || g_polls == 0))"]},
}}
def loops_for(*fns):
    return {"psocket.c": {f: LOOPS["psocket.c"][f] for f in fns}}
def S(id, entry, enforce, replace=(), loops=(), **kw):
    d = dict(id=id, harness="../sock/sock.c", entry=entry, sources=SRC, enforce=enforce, replace=list(replace), timeout=600)
    if loops:
        d["loops"] = loops_for(*loops)
    if id in ("io_condition_wait", "send", "receive", "send_to", "receive_from", "connect", "accept", "new", "close"):
        # native search for a failing fault script (bounded, depth <= 9) with interposed socket calls on the real psocket.c
        d["replay"] = {"driver": "sock_replay.c", "mode": id, "args": [], "timeout": 300}
    d.update(kw)
    return d
EM = "p_error_get_io_from_system"
W = "p_socket_io_condition_wait"
ERRMAP = dict(id="errmap", harness="../sock/errmap.c", entry="h_errmap", sources=["perror.c"], enforce=EM, replace=[], canaries=2, timeout=300)
IO_WAIT = S("io_condition_wait", "h_io_wait", W, [EM], [W], canaries=4)
SEND = S("send", "h_send", "p_socket_send", [EM, W], ["p_socket_send"], canaries=6)
RECV = S("receive", "h_receive", "p_socket_receive", [EM, W], ["p_socket_receive"], canaries=6)
SENDTO = S("send_to", "h_send_to", "p_socket_send_to", [EM, W], ["p_socket_send_to"], canaries=6)
RECVFROM = S("receive_from", "h_receive_from", "p_socket_receive_from", [EM, W], ["p_socket_receive_from"], canaries=6)
CCR = S("check_connect_result", "h_check_connect_result", "p_socket_check_connect_result", [EM], canaries=2)
CONNECT = S("connect", "h_connect", "p_socket_connect", [EM, W, "p_socket_check_connect_result"], ["p_socket_connect"], canaries=5)
SYS_CLOSE = S("sys_close", "h_sys_close", "p_sys_close", canaries=2, cbmc_flags=["--unwind", "3", "--unwinding-assertions"], functions=["p_sys_close"])   # loop-free today; the small unwind turns a retry loop into a counted second close()
ACCEPT = S("accept", "h_accept", "p_socket_accept", [EM, W], ["p_socket_accept"], canaries=4, cbmc_flags=["--object-bits", "10"], functions=["p_socket_accept", "p_socket_new_from_fd", "pp_socket_set_details_from_fd", "pp_socket_set_fd_blocking"])
XFER_UNITS = [ERRMAP, IO_WAIT, SEND, RECV, SENDTO, RECVFROM, CCR, CONNECT, ACCEPT]
