/* C12 / C13 -- rotation lemmas, UNBOUNDED in the size of the tree.
 *
 * The rotation functions of ptree-rb.c and ptree-avl.c are loop-free and touch only a fixed window of nodes: the rotated
 * node(s), the roots of the hanging subtrees (their parent link) and the node above (its child slot) or the tree's root
 * pointer.  The harness builds that window with everything else SYMBOLIC: the hanging subtrees are single node objects
 * whose children are arbitrary pointers (never to be read or written), carrying a ghost height (any value up to 2^30);
 * the node above, its other child, keys, values, colours are arbitrary.  One call of the REAL function, then the exact
 * post-shape is asserted.  No loop, no unwinding, no bound on the number of nodes or the height: this is a complete
 * proof of the per-rotation step for trees of every size (what the bounded units of tree.c can only sample up to H=3).
 *
 * Shapes (MIRROR swaps left/right and the sign of the balance factor):
 *   single, "rotate left" at x:        G            G
 *                                      |            |
 *                                      x            y          in-order  a x b y c  before and after
 *                                     / \    ->    / \
 *                                    a   y        x   c
 *                                       / \      / \
 *                                      b   c    a   b
 *   double (AVL), "rotate left-right" at y (left child of x, z = y's right child):
 *                                      G              G
 *                                      |              |
 *                                      x              z        in-order  B y C z D x A  before and after
 *                                     / \           /   \
 *                                    y   A   ->    y     x
 *                                   / \           / \   / \
 *                                  B   z         B   C D   A
 *                                     / \
 *                                    C   D
 * AVL preconditions are derived from the call sites in pp_tree_avl_balance_insert / _remove: the rotation is requested
 * when the STORED factor of x is still +-1 while the real height difference has become +-2; the inner node's factor is
 * on the same side or 0 for a single rotation, on the opposite side for a double one.
 */
#include "env/verif.h"
#include <stdlib.h>
#include "ptree-rb.c"
#include "ptree-avl.c"

#ifdef ROT_RB
typedef PTreeRBNode N;
#else
typedef PTreeAVLNode N;
#endif

#ifdef MIRROR
#  define LF(n) ((n)->base.right)
#  define RT(n) ((n)->base.left)
#  define SGN(v) (-(v))
#else
#  define LF(n) ((n)->base.left)
#  define RT(n) ((n)->base.right)
#  define SGN(v) (v)
#endif
#define MAXH (1 << 30)

static N *mk (void)
{
	N *n = malloc (sizeof (N)); __CPROVER_assume (n != NULL);
#ifndef ROT_RB
	__CPROVER_assume (n->balance_factor >= -1 && n->balance_factor <= 1);   /* type invariant of a stored AVL node */
#endif
	return n;
}
/* a hanging subtree: absent (height 0) or a node object with an arbitrary interior and a ghost height >= 1 */
static N *mk_sub (int *h, N *parent)
{
	if (nondet_bool ()) { *h = 0; return NULL; }
	N *n = mk (); n->parent = parent; *h = nondet_int (); __CPROVER_assume (*h >= 1 && *h <= MAXH); return n;
}
static int max2 (int a, int b) { return a > b ? a : b; }
/* everything of a node but its parent link is unchanged */
#ifdef ROT_RB
#  define SAME_BUT_PARENT(n, s) ((n) == NULL || ((n)->base.left == (s).base.left && (n)->base.right == (s).base.right && (n)->base.key == (s).base.key && (n)->base.value == (s).base.value && (n)->color == (s).color))
#  define SAME_PAYLOAD(n, s) ((n)->base.key == (s).base.key && (n)->base.value == (s).base.value && (n)->color == (s).color)
#else
#  define SAME_BUT_PARENT(n, s) ((n) == NULL || ((n)->base.left == (s).base.left && (n)->base.right == (s).base.right && (n)->base.key == (s).base.key && (n)->base.value == (s).base.value && (n)->balance_factor == (s).balance_factor))
#  define SAME_PAYLOAD(n, s) ((n)->base.key == (s).base.key && (n)->base.value == (s).base.value)
#endif
#define SNAP(s, n) do { if ((n) != NULL) (s) = *(n); } while (0)

/* the node above the window (or none: then the tree's root pointer designates the top of the window) */
N *g_G; _Bool g_top_is_left; PTreeBaseNode *g_other; PTreeBaseNode *g_root; PTreeBaseNode *g_root0; N g_G0;
static void mk_above (N *top)
{
	g_G = nondet_bool () ? mk () : NULL;
	top->parent = g_G;
	if (g_G != NULL) {
		g_top_is_left = nondet_bool (); g_other = nondet_ptr (); __CPROVER_assume (g_other != (PTreeBaseNode *) top);
		if (g_top_is_left) { g_G->base.left = (PTreeBaseNode *) top; g_G->base.right = g_other; }
		else { g_G->base.right = (PTreeBaseNode *) top; g_G->base.left = g_other; }
		g_root = nondet_ptr ();      /* some node further up: must not be touched */
		g_G0 = *g_G;
	} else g_root = (PTreeBaseNode *) top;
	g_root0 = g_root;
}
static void check_above (N *old_top, N *new_top)
{
	OBL (new_top->parent == g_G, "rotation: the new top of the window hangs where the old one hung (parent link)");
	if (g_G != NULL) {
		OBL ((g_top_is_left ? g_G->base.left : g_G->base.right) == (PTreeBaseNode *) new_top, "rotation: the node above points to the new top through the same child slot");
		OBL ((g_top_is_left ? g_G->base.right : g_G->base.left) == g_other, "rotation: the other child of the node above is untouched");
		OBL (g_G->parent == g_G0.parent && SAME_PAYLOAD (g_G, g_G0), "rotation: nothing else of the node above changes");
#ifndef ROT_RB
		OBL (g_G->balance_factor == g_G0.balance_factor, "rotation: the balance factor of the node above is left to the caller");
#endif
		OBL (g_root == g_root0, "rotation below the root leaves the tree's root pointer alone");
		CANARY ("window below another node");
	} else {
		OBL (g_root == (PTreeBaseNode *) new_top, "rotation at the root: the tree's root pointer designates the new top");
		CANARY ("window at the root");
	}
	(void) old_top;
}

/* ------------------------------------------------------------------ single rotation */
void h_single (void)
{
	N *x = mk (), *y = mk ();
	int ha, hb, hc;
	N *a = mk_sub (&ha, x), *b = mk_sub (&hb, y), *c = mk_sub (&hc, y);
	LF (x) = (PTreeBaseNode *) a; RT (x) = (PTreeBaseNode *) y; y->parent = x;
	LF (y) = (PTreeBaseNode *) b; RT (y) = (PTreeBaseNode *) c;
	mk_above (x);
#ifndef ROT_RB
	/* call sites: stored factor of x one step towards y's side, real difference two; y leans the same way or not at all */
	int hy = 1 + max2 (hb, hc);
	__CPROVER_assume (SGN (x->balance_factor) == -1 && ha - hy == -2);
	__CPROVER_assume (SGN (y->balance_factor) == hb - hc && (hb - hc == -1 || hb - hc == 0));
#endif
	N x0 = *x, y0 = *y, a0, b0, c0; SNAP (a0, a); SNAP (b0, b); SNAP (c0, c);

#if defined (ROT_RB) && !defined (MIRROR)
	pp_tree_rb_rotate_left (x, &g_root);
#elif defined (ROT_RB)
	pp_tree_rb_rotate_right (x, &g_root);
#elif !defined (MIRROR)
	pp_tree_avl_rotate_left (y, &g_root);
#else
	pp_tree_avl_rotate_right (y, &g_root);
#endif

	OBL (LF (y) == (PTreeBaseNode *) x && x->parent == y, "rotation: the old top becomes the inner child of the new top, linked both ways");
	OBL (RT (y) == (PTreeBaseNode *) c, "rotation: the outer subtree of the new top stays where it was");
	OBL (LF (x) == (PTreeBaseNode *) a, "rotation: the outer subtree of the old top stays where it was");
	OBL (RT (x) == (PTreeBaseNode *) b, "rotation: the middle subtree moves from the new top to the old top (in-order sequence a x b y c preserved)");
	OBL (b == NULL || b->parent == x, "rotation: the moved subtree's parent link follows it");
	OBL ((a == NULL || a->parent == x) && (c == NULL || c->parent == y), "rotation: the subtrees that do not move keep their parent links");
	OBL (SAME_BUT_PARENT (a, a0) && SAME_BUT_PARENT (b, b0) && SAME_BUT_PARENT (c, c0), "rotation: the interiors of the hanging subtrees are not touched");
	OBL (SAME_PAYLOAD (x, x0) && SAME_PAYLOAD (y, y0), "rotation: keys, values (and colours) stay with their nodes");
	check_above (x, y);
#ifndef ROT_RB
	int hx1 = 1 + max2 (ha, hb);
	OBL (SGN (x->balance_factor) == ha - hb, "C13 rotation: stored balance factor of the old top = real height difference of its new subtrees");
	OBL (SGN (y->balance_factor) == hx1 - hc, "C13 rotation: stored balance factor of the new top = real height difference of its new subtrees");
	OBL (x->balance_factor >= -1 && x->balance_factor <= 1 && y->balance_factor >= -1 && y->balance_factor <= 1, "C13 rotation: both nodes are balanced afterwards");
	if (hb == hc) CANARY ("inner node even (removal only)"); else CANARY ("inner node leaning outwards");
#endif
	if (b != NULL) CANARY ("middle subtree present"); else CANARY ("middle subtree absent");
}

/* ------------------------------------------------------------------ double rotation (AVL) */
#ifndef ROT_RB
void h_double (void)
{
	N *x = mk (), *y = mk (), *z = mk ();
	int hA, hB, hC, hD;
	N *A = mk_sub (&hA, x), *B = mk_sub (&hB, y), *C = mk_sub (&hC, z), *D = mk_sub (&hD, z);
	LF (x) = (PTreeBaseNode *) y; RT (x) = (PTreeBaseNode *) A; y->parent = x;
	LF (y) = (PTreeBaseNode *) B; RT (y) = (PTreeBaseNode *) z; z->parent = y;
	LF (z) = (PTreeBaseNode *) C; RT (z) = (PTreeBaseNode *) D;
	mk_above (x);
	int hz = 1 + max2 (hC, hD), hy = 1 + max2 (hB, hz);
	/* call sites: x's stored factor one step towards y, real difference two; y leans towards z by one; z is any balanced node */
	__CPROVER_assume (SGN (x->balance_factor) == 1 && hy - hA == 2);
	__CPROVER_assume (SGN (y->balance_factor) == -1 && hB - hz == -1);
	__CPROVER_assume (SGN (z->balance_factor) == hC - hD && hC - hD >= -1 && hC - hD <= 1);
	N x0 = *x, y0 = *y, z0 = *z, A0, B0, C0, D0; SNAP (A0, A); SNAP (B0, B); SNAP (C0, C); SNAP (D0, D);

#ifndef MIRROR
	pp_tree_avl_rotate_left_right (y, &g_root);
#else
	pp_tree_avl_rotate_right_left (y, &g_root);
#endif

	OBL (LF (z) == (PTreeBaseNode *) y && y->parent == z && RT (z) == (PTreeBaseNode *) x && x->parent == z, "double rotation: the innermost node becomes the top with the two others as its children, linked both ways");
	OBL (LF (y) == (PTreeBaseNode *) B && RT (x) == (PTreeBaseNode *) A, "double rotation: the outer subtrees stay where they were");
	OBL (RT (y) == (PTreeBaseNode *) C && LF (x) == (PTreeBaseNode *) D, "double rotation: the innermost node's subtrees are handed to its new children (in-order sequence B y C z D x A preserved)");
	OBL ((C == NULL || C->parent == y) && (D == NULL || D->parent == x), "double rotation: the moved subtrees' parent links follow them");
	OBL ((A == NULL || A->parent == x) && (B == NULL || B->parent == y), "double rotation: the subtrees that do not move keep their parent links");
	OBL (SAME_BUT_PARENT (A, A0) && SAME_BUT_PARENT (B, B0) && SAME_BUT_PARENT (C, C0) && SAME_BUT_PARENT (D, D0), "double rotation: the interiors of the hanging subtrees are not touched");
	OBL (SAME_PAYLOAD (x, x0) && SAME_PAYLOAD (y, y0) && SAME_PAYLOAD (z, z0), "double rotation: keys and values stay with their nodes");
	check_above (x, z);
	int hy1 = 1 + max2 (hB, hC), hx1 = 1 + max2 (hD, hA);
	OBL (SGN (y->balance_factor) == hB - hC, "C13 double rotation: stored balance factor of the lower left node = real height difference");
	OBL (SGN (x->balance_factor) == hD - hA, "C13 double rotation: stored balance factor of the old top = real height difference");
	OBL (z->balance_factor == 0 && hy1 == hx1, "C13 double rotation: the new top is even, and really so");
	OBL (x->balance_factor >= -1 && x->balance_factor <= 1 && y->balance_factor >= -1 && y->balance_factor <= 1, "C13 double rotation: all three nodes are balanced afterwards");
	if (hC > hD) CANARY ("innermost node leaning left"); else if (hC < hD) CANARY ("innermost node leaning right"); else CANARY ("innermost node even");
}
#endif

/* ------------------------------------------------------------------ AVL retrace step lemmas (unbounded in the subtree heights)
 * pp_tree_avl_balance_insert / _remove walk from the changed subtree N towards the root; at every node P on the way they either
 * stop (P's height is what it was), rotate (and stop, or for a removal possibly go on) or adjust P's factor and go on.  What one
 * step does depends on a fixed window only: P, N, N's sibling S and -- for the rotations -- the inner child and grandchild.  The
 * harness builds that window with all hanging subtrees opaque (a node object with an arbitrary interior and a ghost height of any
 * value), stored factors = real height differences everywhere except at P, whose factor is still the one from BEFORE the height
 * of N changed by one, and runs the REAL loop.  Where the loop would go on above P, P is made the root (the continuation is the
 * same step one level up: that induction over the path is the meta-argument, not checked here); where it stops at P, the node
 * above is arbitrary.  Obligation: afterwards every node of the window stores its real height difference, which lies in -1..1,
 * all links are consistent, and the height of the window is the old one, or differs by one exactly when the loop goes on. */
#ifndef ROT_RB
#define NSUB 8
N *g_sub[NSUB]; int g_subh[NSUB]; int g_nsub; _Bool g_ok_bf, g_ok_links;
static void reg_sub (N *n, int h) { if (n != NULL && g_nsub < NSUB) { g_sub[g_nsub] = n; g_subh[g_nsub] = h; g_nsub++; } }
static N *mk_sub_reg (int *h, N *parent) { N *n = mk_sub (h, parent); reg_sub (n, *h); return n; }
static int sub_h (N *n, _Bool *is) { for (int i = 0; i < NSUB; i++) if (i < g_nsub && g_sub[i] == n) { *is = 1; return g_subh[i]; } *is = 0; return 0; }
/* evaluation of the window after the call.  The real (non-opaque) nodes of the window are registered; heights are computed
 * bottom-up in four passes over them (the window is at most three real nodes deep; the fourth pass must not change anything,
 * which also excludes a cycle); every node but the top must be the child of exactly one registered node, in one slot, with
 * its parent link pointing back; the top's parent link must point to the node above. */
#define NREAL 3
N *g_real[NREAL]; int g_nreal; int g_rh[NREAL];
static void reg_real (N *n) { if (n != NULL && g_nreal < NREAL) { g_real[g_nreal] = n; g_nreal++; } }
static int child_h (N *c, N *par)
{
	if (c == NULL) return 0;
	if (c->parent != par) g_ok_links = 0;
	for (int i = 0; i < NREAL; i++) if (i < g_nreal && g_real[i] == c) return g_rh[i];
	_Bool is; int h = sub_h (c, &is); if (!is) g_ok_links = 0; return h;
}
static unsigned incoming (N *c)
{
	unsigned k = 0;
	for (int i = 0; i < NREAL; i++) if (i < g_nreal) { if ((N *) g_real[i]->base.left == c) k++; if ((N *) g_real[i]->base.right == c) k++; }
	return k;
}
static int eval_window (N *top, N *above)
{
	int htop = 0;
	for (int i = 0; i < NREAL; i++) g_rh[i] = 0;
	for (int pass = 0; pass < 4; pass++)
		for (int i = 0; i < NREAL; i++) if (i < g_nreal) {
			N *r = g_real[i];
			int hl = child_h ((N *) r->base.left, r), hr = child_h ((N *) r->base.right, r), nh = 1 + max2 (hl, hr);
			if (pass == 3) {
				if (nh != g_rh[i]) g_ok_links = 0;
				if (r->balance_factor != hl - hr || hl - hr > 1 || hl - hr < -1) g_ok_bf = 0;
				if (r == top) htop = nh;
			}
			g_rh[i] = nh;
		}
	_Bool top_real = 0;
	for (int i = 0; i < NREAL; i++) if (i < g_nreal) { if (g_real[i] == top) top_real = 1; if (incoming (g_real[i]) != (g_real[i] == top ? 0u : 1u)) g_ok_links = 0; }
	for (int i = 0; i < NSUB; i++) if (i < g_nsub && incoming (g_sub[i]) != 1) g_ok_links = 0;
	if (!top_real || top->parent != above) g_ok_links = 0;
	return htop;
}
/* a real node with two opaque subtrees, or nothing; valid AVL inside */
static N *mk_inner (int *h, N *parent)
{
	if (nondet_bool ()) { *h = 0; return NULL; }
	N *z = mk (); z->parent = parent; int hl, hr; reg_real (z);
	LF (z) = (PTreeBaseNode *) mk_sub_reg (&hl, z); RT (z) = (PTreeBaseNode *) mk_sub_reg (&hr, z);
	__CPROVER_assume (hl - hr >= -1 && hl - hr <= 1); z->balance_factor = SGN (hl - hr);
	*h = 1 + max2 (hl, hr); return z;
}
static N *window_top (void) { return g_G != NULL ? (N *) (g_top_is_left ? g_G->base.left : g_G->base.right) : (N *) g_root; }

void h_avl_insert_step (void)
{
	g_nsub = 0; g_nreal = 0;
	N *P = mk (), *Nn = mk (); reg_real (P); reg_real (Nn);
	int hS, ho, hi;
	N *S = mk_sub_reg (&hS, P);
	N *o = mk_sub_reg (&ho, Nn), *z = mk_inner (&hi, Nn);          /* N: outer subtree opaque, inner child absent or a real node */
	LF (Nn) = (PTreeBaseNode *) o; RT (Nn) = (PTreeBaseNode *) z; Nn->parent = P;
	__CPROVER_assume (ho - hi >= -1 && ho - hi <= 1); Nn->balance_factor = SGN (ho - hi);
	int hN = 1 + max2 (ho, hi);
	/* N's subtree has just grown by one: N is the new leaf, or it leans (a node that became even did not grow and the loop stopped below) */
	__CPROVER_assume ((ho == 0 && hi == 0) || ho != hi);
	LF (P) = (PTreeBaseNode *) Nn; RT (P) = (PTreeBaseNode *) S;
	int d_old = (hN - 1) - hS;                                     /* P's stored factor: from before the insertion */
	__CPROVER_assume (d_old >= -1 && d_old <= 1); P->balance_factor = SGN (d_old);
	mk_above (P);
	__CPROVER_assume (g_G == NULL || d_old != 0);                  /* the loop goes on above P exactly when P was even: then P is the root here */
	int h_old = 1 + max2 (hN - 1, hS);

	pp_tree_avl_balance_insert (Nn, &g_root);

	N *top = window_top ();
	OBL (top != NULL, "AVL insert step: the window is still hanging where it hung");
	g_ok_bf = g_ok_links = 1;
	int h_new = eval_window (top, g_G);
	OBL (g_ok_links, "AVL insert step: every node of the window is linked both ways, the hanging subtrees are all still there");
	OBL (g_ok_bf, "C13 AVL insert step: every node of the window stores its real height difference, and it lies in -1..1");
	OBL (h_new == (d_old == 0 ? h_old + 1 : h_old), "C13 AVL insert step: the window keeps its height (stop) unless its top was even (go on: one higher)");
	check_above (P, top);
	if (d_old == 1 && ho > hi) CANARY ("single rotation"); if (d_old == 1 && hi > ho) CANARY ("double rotation");
	if (d_old == -1) CANARY ("lighter side grew: stop"); if (d_old == 0) CANARY ("even node grows: go on");
}

#ifndef REMCASE
#define REMCASE 0
#endif
void h_avl_remove_step (void)
{
	g_nsub = 0; g_nreal = 0;
	N *P = mk (), *Nn = mk (); reg_real (P);
	/* N: the subtree that has just become one lower (or the childless node about to be unlinked: new height 0); never looked into */
	int hN = nondet_int (); __CPROVER_assume (hN >= 0 && hN < MAXH); Nn->parent = P; reg_sub (Nn, hN);
	/* the sibling, by case (-DREMCASE, three units per side; together they are every window):
	 *   0  no rotation (P even or leaning towards N): the sibling is never looked into -- absent or opaque
	 *   1  single rotation (P leans away from N, sibling even or leaning outwards): sibling real, both its subtrees opaque
	 *   2  double rotation (sibling leaning inwards): sibling and its inner child real, their other subtrees opaque */
	N *S = NULL; int hS = 0, hso = 0, hsi = 0;
#if REMCASE == 0
	S = mk_sub_reg (&hS, P);
	__CPROVER_assume ((hN + 1) - hS >= 0);
#else
	S = mk (); S->parent = P; reg_real (S);
	N *so = mk_sub_reg (&hso, S);
#  if REMCASE == 1
	N *si = mk_sub_reg (&hsi, S);
	__CPROVER_assume (hsi <= hso);
#  else
	N *si = mk_inner (&hsi, S);
	__CPROVER_assume (hsi > hso);
#  endif
	LF (S) = (PTreeBaseNode *) si; RT (S) = (PTreeBaseNode *) so;
	__CPROVER_assume (hsi - hso >= -1 && hsi - hso <= 1); S->balance_factor = SGN (hsi - hso);
	hS = 1 + max2 (hsi, hso);
	__CPROVER_assume ((hN + 1) - hS == -1);
#endif
	LF (P) = (PTreeBaseNode *) Nn; RT (P) = (PTreeBaseNode *) S;
	int d_old = (hN + 1) - hS;                                     /* P's stored factor: from before the removal */
	__CPROVER_assume (d_old >= -1 && d_old <= 1); P->balance_factor = SGN (d_old);
	mk_above (P);
	_Bool stops = d_old == 0 || (d_old == -1 && hsi == hso);       /* P keeps its height: the loop stops here; otherwise it goes on and P is the root */
	__CPROVER_assume (g_G == NULL || stops);
	int h_old = 1 + max2 (hN + 1, hS);

	pp_tree_avl_balance_remove (Nn, &g_root);

	N *top = window_top ();
	OBL (top != NULL, "AVL remove step: the window is still hanging where it hung");
	g_ok_bf = g_ok_links = 1;
	int h_new = eval_window (top, g_G);
	OBL (g_ok_links, "AVL remove step: every node of the window is linked both ways, the hanging subtrees are all still there");
	OBL (g_ok_bf, "C13 AVL remove step: every node of the window stores its real height difference, and it lies in -1..1");
	OBL (h_new == (stops ? h_old : h_old - 1), "C13 AVL remove step: the window keeps its height exactly when the loop stops, otherwise it is one lower");
	check_above (P, top);
#if REMCASE == 0
	if (d_old == 0) CANARY ("even node: stop"); if (d_old == 1) CANARY ("heavier side shrank: go on");
#elif REMCASE == 1
	if (hsi == hso) CANARY ("single rotation, height kept"); if (hso > hsi) CANARY ("single rotation, one lower");
#else
	CANARY ("double rotation");
#endif
}
#endif
