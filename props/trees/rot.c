/* C12 / C13 -- rotation lemmas, UNBOUNDED in the size of the tree.
 *
 * The rotation functions of ptree-rb.c and ptree-avl.c are loop-free and touch only a fixed window of nodes: the rotated
 * node(s), the roots of the hanging subtrees (their parent link) and the node above (its child slot) or the tree's root
 * pointer.  The harness builds that window with everything else SYMBOLIC: the hanging subtrees are single node objects
 * whose children are arbitrary pointers (never to be read or written), carrying a ghost height (any value up to 2^30);
 * the node above, its other child, keys, values, colours are arbitrary.  One call of the REAL function, then the exact
 * post-shape is asserted.  No loop, no unwinding, no bound on the number of nodes or the height: this is a complete
 * proof of the per-rotation step for trees of every size (what the bounded units of tree.c can only sample up to H=3).
 *
 * Shapes (MIRROR swaps left/right and the sign of the balance factor):
 *   single, "rotate left" at x:        G            G
 *                                      |            |
 *                                      x            y          in-order  a x b y c  before and after
 *                                     / \    ->    / \
 *                                    a   y        x   c
 *                                       / \      / \
 *                                      b   c    a   b
 *   double (AVL), "rotate left-right" at y (left child of x, z = y's right child):
 *                                      G              G
 *                                      |              |
 *                                      x              z        in-order  B y C z D x A  before and after
 *                                     / \           /   \
 *                                    y   A   ->    y     x
 *                                   / \           / \   / \
 *                                  B   z         B   C D   A
 *                                     / \
 *                                    C   D
 * AVL preconditions are derived from the call sites in pp_tree_avl_balance_insert / _remove: the rotation is requested
 * when the STORED factor of x is still +-1 while the real height difference has become +-2; the inner node's factor is
 * on the same side or 0 for a single rotation, on the opposite side for a double one.
 */
#include "env/verif.h"
#include <stdlib.h>
#include "ptree-rb.c"
#include "ptree-avl.c"

#ifdef ROT_RB
typedef PTreeRBNode N;
#else
typedef PTreeAVLNode N;
#endif

#ifdef MIRROR
#  define LF(n) ((n)->base.right)
#  define RT(n) ((n)->base.left)
#  define SGN(v) (-(v))
#else
#  define LF(n) ((n)->base.left)
#  define RT(n) ((n)->base.right)
#  define SGN(v) (v)
#endif
#define MAXH (1 << 30)

static N *mk (void)
{
	N *n = malloc (sizeof (N)); __CPROVER_assume (n != NULL);
#ifndef ROT_RB
	__CPROVER_assume (n->balance_factor >= -1 && n->balance_factor <= 1);   /* type invariant of a stored AVL node */
#endif
	return n;
}
/* a hanging subtree: absent (height 0) or a node object with an arbitrary interior and a ghost height >= 1 */
static N *mk_sub (int *h, N *parent)
{
	if (nondet_bool ()) { *h = 0; return NULL; }
	N *n = mk (); n->parent = parent; *h = nondet_int (); __CPROVER_assume (*h >= 1 && *h <= MAXH); return n;
}
static int max2 (int a, int b) { return a > b ? a : b; }
/* everything of a node but its parent link is unchanged */
#ifdef ROT_RB
#  define SAME_BUT_PARENT(n, s) ((n) == NULL || ((n)->base.left == (s).base.left && (n)->base.right == (s).base.right && (n)->base.key == (s).base.key && (n)->base.value == (s).base.value && (n)->color == (s).color))
#  define SAME_PAYLOAD(n, s) ((n)->base.key == (s).base.key && (n)->base.value == (s).base.value && (n)->color == (s).color)
#else
#  define SAME_BUT_PARENT(n, s) ((n) == NULL || ((n)->base.left == (s).base.left && (n)->base.right == (s).base.right && (n)->base.key == (s).base.key && (n)->base.value == (s).base.value && (n)->balance_factor == (s).balance_factor))
#  define SAME_PAYLOAD(n, s) ((n)->base.key == (s).base.key && (n)->base.value == (s).base.value)
#endif
#define SNAP(s, n) do { if ((n) != NULL) (s) = *(n); } while (0)

/* the node above the window (or none: then the tree's root pointer designates the top of the window) */
N *g_G; _Bool g_top_is_left; PTreeBaseNode *g_other; PTreeBaseNode *g_root; PTreeBaseNode *g_root0; N g_G0;
static void mk_above (N *top)
{
	g_G = nondet_bool () ? mk () : NULL;
	top->parent = g_G;
	if (g_G != NULL) {
		g_top_is_left = nondet_bool (); g_other = nondet_ptr (); __CPROVER_assume (g_other != (PTreeBaseNode *) top);
		if (g_top_is_left) { g_G->base.left = (PTreeBaseNode *) top; g_G->base.right = g_other; }
		else { g_G->base.right = (PTreeBaseNode *) top; g_G->base.left = g_other; }
		g_root = nondet_ptr ();      /* some node further up: must not be touched */
		g_G0 = *g_G;
	} else g_root = (PTreeBaseNode *) top;
	g_root0 = g_root;
}
static void check_above (N *old_top, N *new_top)
{
	OBL (new_top->parent == g_G, "rotation: the new top of the window hangs where the old one hung (parent link)");
	if (g_G != NULL) {
		OBL ((g_top_is_left ? g_G->base.left : g_G->base.right) == (PTreeBaseNode *) new_top, "rotation: the node above points to the new top through the same child slot");
		OBL ((g_top_is_left ? g_G->base.right : g_G->base.left) == g_other, "rotation: the other child of the node above is untouched");
		OBL (g_G->parent == g_G0.parent && SAME_PAYLOAD (g_G, g_G0), "rotation: nothing else of the node above changes");
#ifndef ROT_RB
		OBL (g_G->balance_factor == g_G0.balance_factor, "rotation: the balance factor of the node above is left to the caller");
#endif
		OBL (g_root == g_root0, "rotation below the root leaves the tree's root pointer alone");
		CANARY ("window below another node");
	} else {
		OBL (g_root == (PTreeBaseNode *) new_top, "rotation at the root: the tree's root pointer designates the new top");
		CANARY ("window at the root");
	}
	(void) old_top;
}

/* ------------------------------------------------------------------ single rotation */
void h_single (void)
{
	N *x = mk (), *y = mk ();
	int ha, hb, hc;
	N *a = mk_sub (&ha, x), *b = mk_sub (&hb, y), *c = mk_sub (&hc, y);
	LF (x) = (PTreeBaseNode *) a; RT (x) = (PTreeBaseNode *) y; y->parent = x;
	LF (y) = (PTreeBaseNode *) b; RT (y) = (PTreeBaseNode *) c;
	mk_above (x);
#ifndef ROT_RB
	/* call sites: stored factor of x one step towards y's side, real difference two; y leans the same way or not at all */
	int hy = 1 + max2 (hb, hc);
	__CPROVER_assume (SGN (x->balance_factor) == -1 && ha - hy == -2);
	__CPROVER_assume (SGN (y->balance_factor) == hb - hc && (hb - hc == -1 || hb - hc == 0));
#endif
	N x0 = *x, y0 = *y, a0, b0, c0; SNAP (a0, a); SNAP (b0, b); SNAP (c0, c);

#if defined (ROT_RB) && !defined (MIRROR)
	pp_tree_rb_rotate_left (x, &g_root);
#elif defined (ROT_RB)
	pp_tree_rb_rotate_right (x, &g_root);
#elif !defined (MIRROR)
	pp_tree_avl_rotate_left (y, &g_root);
#else
	pp_tree_avl_rotate_right (y, &g_root);
#endif

	OBL (LF (y) == (PTreeBaseNode *) x && x->parent == y, "rotation: the old top becomes the inner child of the new top, linked both ways");
	OBL (RT (y) == (PTreeBaseNode *) c, "rotation: the outer subtree of the new top stays where it was");
	OBL (LF (x) == (PTreeBaseNode *) a, "rotation: the outer subtree of the old top stays where it was");
	OBL (RT (x) == (PTreeBaseNode *) b, "rotation: the middle subtree moves from the new top to the old top (in-order sequence a x b y c preserved)");
	OBL (b == NULL || b->parent == x, "rotation: the moved subtree's parent link follows it");
	OBL ((a == NULL || a->parent == x) && (c == NULL || c->parent == y), "rotation: the subtrees that do not move keep their parent links");
	OBL (SAME_BUT_PARENT (a, a0) && SAME_BUT_PARENT (b, b0) && SAME_BUT_PARENT (c, c0), "rotation: the interiors of the hanging subtrees are not touched");
	OBL (SAME_PAYLOAD (x, x0) && SAME_PAYLOAD (y, y0), "rotation: keys, values (and colours) stay with their nodes");
	check_above (x, y);
#ifndef ROT_RB
	int hx1 = 1 + max2 (ha, hb);
	OBL (SGN (x->balance_factor) == ha - hb, "C13 rotation: stored balance factor of the old top = real height difference of its new subtrees");
	OBL (SGN (y->balance_factor) == hx1 - hc, "C13 rotation: stored balance factor of the new top = real height difference of its new subtrees");
	OBL (x->balance_factor >= -1 && x->balance_factor <= 1 && y->balance_factor >= -1 && y->balance_factor <= 1, "C13 rotation: both nodes are balanced afterwards");
	if (hb == hc) CANARY ("inner node even (removal only)"); else CANARY ("inner node leaning outwards");
#endif
	if (b != NULL) CANARY ("middle subtree present"); else CANARY ("middle subtree absent");
}

/* ------------------------------------------------------------------ double rotation (AVL) */
#ifndef ROT_RB
void h_double (void)
{
	N *x = mk (), *y = mk (), *z = mk ();
	int hA, hB, hC, hD;
	N *A = mk_sub (&hA, x), *B = mk_sub (&hB, y), *C = mk_sub (&hC, z), *D = mk_sub (&hD, z);
	LF (x) = (PTreeBaseNode *) y; RT (x) = (PTreeBaseNode *) A; y->parent = x;
	LF (y) = (PTreeBaseNode *) B; RT (y) = (PTreeBaseNode *) z; z->parent = y;
	LF (z) = (PTreeBaseNode *) C; RT (z) = (PTreeBaseNode *) D;
	mk_above (x);
	int hz = 1 + max2 (hC, hD), hy = 1 + max2 (hB, hz);
	/* call sites: x's stored factor one step towards y, real difference two; y leans towards z by one; z is any balanced node */
	__CPROVER_assume (SGN (x->balance_factor) == 1 && hy - hA == 2);
	__CPROVER_assume (SGN (y->balance_factor) == -1 && hB - hz == -1);
	__CPROVER_assume (SGN (z->balance_factor) == hC - hD && hC - hD >= -1 && hC - hD <= 1);
	N x0 = *x, y0 = *y, z0 = *z, A0, B0, C0, D0; SNAP (A0, A); SNAP (B0, B); SNAP (C0, C); SNAP (D0, D);

#ifndef MIRROR
	pp_tree_avl_rotate_left_right (y, &g_root);
#else
	pp_tree_avl_rotate_right_left (y, &g_root);
#endif

	OBL (LF (z) == (PTreeBaseNode *) y && y->parent == z && RT (z) == (PTreeBaseNode *) x && x->parent == z, "double rotation: the innermost node becomes the top with the two others as its children, linked both ways");
	OBL (LF (y) == (PTreeBaseNode *) B && RT (x) == (PTreeBaseNode *) A, "double rotation: the outer subtrees stay where they were");
	OBL (RT (y) == (PTreeBaseNode *) C && LF (x) == (PTreeBaseNode *) D, "double rotation: the innermost node's subtrees are handed to its new children (in-order sequence B y C z D x A preserved)");
	OBL ((C == NULL || C->parent == y) && (D == NULL || D->parent == x), "double rotation: the moved subtrees' parent links follow them");
	OBL ((A == NULL || A->parent == x) && (B == NULL || B->parent == y), "double rotation: the subtrees that do not move keep their parent links");
	OBL (SAME_BUT_PARENT (A, A0) && SAME_BUT_PARENT (B, B0) && SAME_BUT_PARENT (C, C0) && SAME_BUT_PARENT (D, D0), "double rotation: the interiors of the hanging subtrees are not touched");
	OBL (SAME_PAYLOAD (x, x0) && SAME_PAYLOAD (y, y0) && SAME_PAYLOAD (z, z0), "double rotation: keys and values stay with their nodes");
	check_above (x, z);
	int hy1 = 1 + max2 (hB, hC), hx1 = 1 + max2 (hD, hA);
	OBL (SGN (y->balance_factor) == hB - hC, "C13 double rotation: stored balance factor of the lower left node = real height difference");
	OBL (SGN (x->balance_factor) == hD - hA, "C13 double rotation: stored balance factor of the old top = real height difference");
	OBL (z->balance_factor == 0 && hy1 == hx1, "C13 double rotation: the new top is even, and really so");
	OBL (x->balance_factor >= -1 && x->balance_factor <= 1 && y->balance_factor >= -1 && y->balance_factor <= 1, "C13 double rotation: all three nodes are balanced afterwards");
	if (hC > hD) CANARY ("innermost node leaning left"); else if (hC < hD) CANARY ("innermost node leaning right"); else CANARY ("innermost node even");
}
#endif
