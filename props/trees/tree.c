/* C12 / C13 / C14 -- the three tree implementations and ptree.c.
 * Bounded inductive step: the pre-state is ANY well-formed tree of height <= H (symbolic shape, keys, values, colours /
 * balance factors, parent links), ONE operation with symbolic arguments is executed on the real code, and the result is
 * re-validated against the sorted-map specification.  Every reachable tree of that height is a well-formed tree, so this is
 * invariant preservation for all operation sequences whose trees stay within the bound.  -DTREE_BST / -DTREE_RB / -DTREE_AVL,
 * -DH=<height>.  Keys: a key pointer is 16*k + tag; the comparator orders by k (any total order embeds into the integers),
 * the tag makes equal keys distinguishable objects (needed for the ownership property C14). */
#include "env/verif.h"
#include "env/alloc.c"
#include "ptree-bst.c"
#include "ptree-rb.c"
#include "ptree-avl.c"
#include "ptree.c"

#ifndef H
#define H 3
#endif
#define NPOS ((1 << H) - 1)
#define KEYOF(p) ((int) (((unsigned long) (p)) >> 4))
/* small key universe: KMAX positions are enough to realise every ordering of NPOS + 1 keys and a probe */
#define KMAX (2 * NPOS + 6)

#if defined (TREE_RB)
typedef PTreeRBNode NODE;
#  define TTYPE P_TREE_TYPE_RB
#elif defined (TREE_AVL)
typedef PTreeAVLNode NODE;
#  define TTYPE P_TREE_TYPE_AVL
#else
typedef struct { PTreeBaseNode base; } NODE;
#  define TTYPE P_TREE_TYPE_BINARY
#endif

static pint cmp_keys (pconstpointer a, pconstpointer b, ppointer data) { (void) data; int x = KEYOF (a), y = KEYOF (b); return x < y ? -1 : x > y ? 1 : 0; }

/* ---- notifier log (C14) */
#define LOGMAX (NPOS + 1)
ppointer g_klog[LOGMAX], g_vlog[LOGMAX]; unsigned g_nk, g_nv; unsigned g_node_frees;
/* "never while the pair is still stored": during a remove, the node that carries the removed key must already be unlinked
 * when a notifier runs (a notifier that looks the key up, or removes another one, must not meet the dying pair) */
PTree *g_tree_under_remove; ppointer g_removed_kptr; _Bool g_notified_while_linked;
static _Bool reach_key (PTreeBaseNode *n, ppointer k, int depth) { if (n == NULL || depth > H + 2) return 0; return n->key == k || reach_key (n->left, k, depth + 1) || reach_key (n->right, k, depth + 1); }
static void note_linked (void) { if (g_tree_under_remove != NULL && reach_key (g_tree_under_remove->root, g_removed_kptr, 0)) g_notified_while_linked = 1; }
static void key_destroy (ppointer k) { note_linked (); if (g_nk < LOGMAX) g_klog[g_nk] = k; g_nk++; }
static void val_destroy (ppointer v) { note_linked (); if (g_nv < LOGMAX) g_vlog[g_nv] = v; g_nv++; }

/* ---- symbolic well-formed tree of height <= H in heap order (children of i: 2i+1, 2i+2) */
NODE *g_n[NPOS]; _Bool g_present[NPOS]; int g_key[NPOS]; ppointer g_kptr[NPOS], g_val[NPOS];
int g_h[NPOS + 1];   /* heights, bottom-up */
#define LEFT(i) (2 * (i) + 1)
#define RIGHT(i) (2 * (i) + 2)
#define PRES(i) ((i) < NPOS && g_present[i])

static PTree *build_tree2 (_Bool with_knotif, _Bool with_vnotif)
{
	int lo[NPOS], hi[NPOS];
	unsigned count = 0;
	for (int i = 0; i < NPOS; i++) {
		g_present[i] = nondet_bool ();
		if (i > 0) __CPROVER_assume (!g_present[i] || g_present[(i - 1) / 2]);
		if (i == 0) { lo[0] = 0; hi[0] = KMAX; }
		else { int p = (i - 1) / 2; if (i == LEFT (p)) { lo[i] = lo[p]; hi[i] = g_key[p]; } else { lo[i] = g_key[p]; hi[i] = hi[p]; } }
		g_key[i] = nondet_int ();
		if (g_present[i]) {
			__CPROVER_assume (lo[i] < g_key[i] && g_key[i] < hi[i]);   /* search-tree order */
			unsigned tag = nondet_uint (); __CPROVER_assume (tag < 16);
#ifdef BALANCE_ONLY
			__CPROVER_assume (tag == 0);
#endif
			g_kptr[i] = (ppointer) (unsigned long) (g_key[i] * 16 + (int) tag);
			unsigned vv = nondet_uint (); __CPROVER_assume (vv < 64);
#ifdef BALANCE_ONLY
			__CPROVER_assume (vv == 0);
#endif
			g_val[i] = (ppointer) (unsigned long) (vv * 8);
			g_n[i] = malloc (sizeof (NODE)); __CPROVER_assume (g_n[i] != NULL);
			count++;
		} else g_n[i] = NULL;
	}
	for (int i = NPOS - 1; i >= 0; i--) {
		int hl = PRES (LEFT (i)) ? g_h[LEFT (i)] : 0, hr = PRES (RIGHT (i)) ? g_h[RIGHT (i)] : 0;
		g_h[i] = g_present[i] ? 1 + (hl > hr ? hl : hr) : 0;
	}
#if defined (TREE_RB)
	int bh[NPOS];
#endif
	for (int i = NPOS - 1; i >= 0; i--) {
		if (!g_present[i]) continue;
		NODE *n = g_n[i];
		n->base.left = PRES (LEFT (i)) ? (PTreeBaseNode *) g_n[LEFT (i)] : NULL;
		n->base.right = PRES (RIGHT (i)) ? (PTreeBaseNode *) g_n[RIGHT (i)] : NULL;
		n->base.key = g_kptr[i]; n->base.value = g_val[i];
#if defined (TREE_RB) || defined (TREE_AVL)
		n->parent = i == 0 ? NULL : g_n[(i - 1) / 2];
#endif
#if defined (TREE_RB)
		_Bool red = nondet_bool ();
		n->color = red ? P_TREE_RB_COLOR_RED : P_TREE_RB_COLOR_BLACK;
		if (i == 0) __CPROVER_assume (!red);                                                    /* root black */
		if (red) __CPROVER_assume (!(PRES (LEFT (i)) && g_n[LEFT (i)]->color == P_TREE_RB_COLOR_RED) &&
		                           !(PRES (RIGHT (i)) && g_n[RIGHT (i)]->color == P_TREE_RB_COLOR_RED));   /* no red-red */
		int bl = PRES (LEFT (i)) ? bh[LEFT (i)] : 0, br = PRES (RIGHT (i)) ? bh[RIGHT (i)] : 0;
		__CPROVER_assume (bl == br);                                                              /* equal black height */
		bh[i] = bl + (red ? 0 : 1);
#elif defined (TREE_AVL)
		int hl = PRES (LEFT (i)) ? g_h[LEFT (i)] : 0, hr = PRES (RIGHT (i)) ? g_h[RIGHT (i)] : 0;
		__CPROVER_assume (hl - hr >= -1 && hl - hr <= 1);
		n->balance_factor = hl - hr;
#endif
	}
	g_alloc_may_fail = 0;
	PTree *t = p_tree_new_full (TTYPE, cmp_keys, NULL, with_knotif ? key_destroy : NULL, with_vnotif ? val_destroy : NULL);
	__CPROVER_assume (t != NULL);
	t->root = g_present[0] ? (PTreeBaseNode *) g_n[0] : NULL;
	t->nnodes = (pint) count;
	g_nk = g_nv = 0; g_node_frees = 0;
	g_alloc_may_fail = nondet_bool ();
	return t;
}
static PTree *build_tree (_Bool n) { return build_tree2 (n, n); }
/* the map view of the pre-state */
static _Bool pre_member (int k, ppointer *val, ppointer *kptr)
{
	for (int i = 0; i < NPOS; i++) if (g_present[i] && g_key[i] == k) { if (val) *val = g_val[i]; if (kptr) *kptr = g_kptr[i]; return 1; }
	return 0;
}
static unsigned pre_count (void) { unsigned c = 0; for (int i = 0; i < NPOS; i++) if (g_present[i]) c++; return c; }

/* ---- validation of the post-state (bounded recursion: depth <= H + 2) */
unsigned g_cnt; _Bool g_ok_order, g_ok_parent, g_ok_balance; int g_probe; _Bool g_found; ppointer g_found_val, g_found_kptr;
#define MAXD (H + 2)
static int validate (PTreeBaseNode *n, int lo, int hi, PTreeBaseNode *parent, int depth)   /* returns height (AVL/BST) or black height (RB) */
{
	if (n == NULL) return 0;
	if (depth > MAXD) { g_ok_order = 0; return 0; }
	g_cnt++;
	int k = KEYOF (n->key);
	if (!(lo < k && k < hi)) g_ok_order = 0;
	if (k == g_probe) { g_found = 1; g_found_val = n->value; g_found_kptr = n->key; }
#if defined (TREE_RB) || defined (TREE_AVL)
	if ((PTreeBaseNode *) ((NODE *) n)->parent != parent) g_ok_parent = 0;
#endif
	int l = validate (n->left, lo, k, n, depth + 1), r = validate (n->right, k, hi, n, depth + 1);
#if defined (TREE_RB)
	NODE *x = (NODE *) n;
	_Bool red = x->color == P_TREE_RB_COLOR_RED;
	if (x->color != P_TREE_RB_COLOR_RED && x->color != P_TREE_RB_COLOR_BLACK) g_ok_balance = 0;
	if (parent == NULL && red) g_ok_balance = 0;
	if (red && ((n->left && ((NODE *) n->left)->color == P_TREE_RB_COLOR_RED) || (n->right && ((NODE *) n->right)->color == P_TREE_RB_COLOR_RED))) g_ok_balance = 0;
	if (l != r) g_ok_balance = 0;
	return l + (red ? 0 : 1);
#elif defined (TREE_AVL)
	if (((NODE *) n)->balance_factor != l - r || l - r < -1 || l - r > 1) g_ok_balance = 0;
	return 1 + (l > r ? l : r);
#else
	return 1 + (l > r ? l : r);
#endif
}
static void check_tree (PTree *t, int probe)
{
	g_cnt = 0; g_ok_order = g_ok_parent = g_ok_balance = 1; g_probe = probe; g_found = 0; g_found_val = NULL; g_found_kptr = NULL;
	validate (t->root, 0, KMAX, NULL, 0);
}
#define KEYARG(k, tagv) ((ppointer) (unsigned long) ((k) * 16 + (int) (tagv)))

/* case split (only to run the cases in parallel; the union of the cases is everything):
 * 0: empty tree, the key equals the root key, or the key goes to the side of the root that has no child;
 * 1: key below the root key and a left subtree exists, 2: key above the root key and a right subtree exists */
#ifdef SPLIT
#  define SPLIT_ASSUME(k) __CPROVER_assume (SPLIT == 1 ? (g_present[0] && (k) < g_key[0] && PRES (1)) : SPLIT == 2 ? (g_present[0] && (k) > g_key[0] && PRES (2)) : \
	(!g_present[0] || (k) == g_key[0] || ((k) < g_key[0] && !PRES (1)) || ((k) > g_key[0] && !PRES (2))))
#else
#  define SPLIT_ASSUME(k)
#endif

/* -DBALANCE_ONLY (C13 units at the larger height): no notifiers, one key object per key, one value, probe = the operated key;
 * shape, keys, colours / balance factors, the operated key and allocation failure stay symbolic.  Only the structural
 * obligations (search order, parent links, count, balance invariant) are then meaningful; the others are checked in the full units. */
#ifdef BALANCE_ONLY
#  define BO_ASSUME(kn, vn, tag, probe, k) __CPROVER_assume ((tag) == 0 && (probe) == (k))
#  define NOTIF_CHOICE() 0
#else
#  define BO_ASSUME(kn, vn, tag, probe, k)
#  define NOTIF_CHOICE() nondet_bool ()
#endif
/* ================================================================== insert */
void h_insert (void)
{
	_Bool kn = NOTIF_CHOICE (), vn = NOTIF_CHOICE ();
	PTree *t = build_tree2 (kn, vn);
	int k = nondet_int (), probe = nondet_int (); unsigned tag = nondet_uint ();
	__CPROVER_assume (k > 0 && k < KMAX && tag < 16 && probe > 0 && probe < KMAX);
	unsigned nv = nondet_uint (); __CPROVER_assume (nv < 64);
	BO_ASSUME (kn, vn, tag, probe, k);
	SPLIT_ASSUME (k);
	/* the new value is a fresh object or -- one shared marker value is a common use -- a pointer the tree already stores */
	ppointer key = KEYARG (k, tag), value = (ppointer) (unsigned long) (nondet_bool () ? nv * 8 + 4 : nv * 8);
	ppointer oldv = NULL, oldk = NULL, pv = NULL; _Bool existed = pre_member (k, &oldv, &oldk), pm = pre_member (probe, &pv, NULL);
	unsigned n0 = pre_count ();
	g_alloc_failed = 0;
	p_tree_insert (t, key, value);
	check_tree (t, probe);
	/* C12: sorted map */
	OBL (g_ok_order && g_ok_parent, "C12 insert: result is a search tree with consistent parent links");
	if (existed || !g_alloc_failed) {
		OBL (g_cnt == n0 + (existed ? 0 : 1) && (unsigned) p_tree_get_nnodes (t) == g_cnt, "C12 insert: node count = number of distinct keys");
		OBL (g_found == (pm || probe == k), "C12 insert: membership of every other key unchanged, inserted key present");
		OBL (!g_found || g_found_val == (probe == k ? value : pv), "C12 insert: inserted key maps to the new value, every other key keeps its value");
		OBL (probe != k || g_found_kptr == key, "C12 insert: the new key object is the one stored");
	} else {
		OBL (g_cnt == n0 && (unsigned) p_tree_get_nnodes (t) == n0 && g_found == pm && (!g_found || g_found_val == pv), "C12/C18 insert: allocation failure leaves the map unchanged");
	}
	/* C13: balance */
	OBL (g_ok_balance, "C13 insert: red-black / AVL invariant holds after the operation");
	/* C14: ownership */
	OBL (g_nk == ((existed && kn) ? 1u : 0u) && g_nv == ((existed && vn) ? 1u : 0u), "C14 insert: each given notifier runs exactly once on a replace, never otherwise");
	if (existed && kn && g_nk == 1) OBL (g_klog[0] == oldk, "C14 insert: the replaced key is the one destroyed");
	if (existed && vn && g_nv == 1) OBL (g_vlog[0] == oldv, "C14 insert: the replaced value is the one destroyed");
	if (existed) CANARY ("replace"); else if (!g_alloc_failed) CANARY ("new key");
#if !defined (SPLIT) || SPLIT != 0
	if (g_cnt == NPOS + 1) CANARY ("full tree of height H grows");
#endif
}

/* ================================================================== remove */
void h_remove (void)
{
	_Bool kn = NOTIF_CHOICE (), vn = NOTIF_CHOICE ();   /* key and value notifiers are independent: none, one of them, or both */
	PTree *t = build_tree2 (kn, vn);
	int k = nondet_int (), probe = nondet_int (); unsigned tag = nondet_uint ();
	__CPROVER_assume (k > 0 && k < KMAX && tag < 16 && probe > 0 && probe < KMAX);
	BO_ASSUME (kn, vn, tag, probe, k);
	SPLIT_ASSUME (k);
#ifdef TWO_CHILD_ROOT
	/* C14 at the larger height, already in the quick tier: the removed key is the root's and the root has two children -- the
	 * case in which a pair travels between nodes (predecessor with or without a child of its own); everything else symbolic */
	__CPROVER_assume (g_present[0] && k == g_key[0] && PRES (1) && PRES (2));
#endif
	ppointer oldv = NULL, oldk = NULL, pv = NULL; _Bool existed = pre_member (k, &oldv, &oldk), pm = pre_member (probe, &pv, NULL);
	unsigned n0 = pre_count ();
	g_tree_under_remove = t; g_removed_kptr = oldk; g_notified_while_linked = 0;
	pboolean r = p_tree_remove (t, KEYARG (k, tag));
	g_tree_under_remove = NULL;
	check_tree (t, probe);
	OBL (!g_notified_while_linked, "C14 remove: the notifiers run only after the pair has been unlinked from the tree");
	OBL ((r == TRUE) == existed && (r == TRUE || r == FALSE), "C12 remove: reports whether the key existed");
	OBL (g_ok_order && g_ok_parent, "C12 remove: result is a search tree with consistent parent links");
	OBL (g_cnt == n0 - (existed ? 1 : 0) && (unsigned) p_tree_get_nnodes (t) == g_cnt, "C12 remove: node count = number of distinct keys");
	OBL (g_found == (pm && probe != k), "C12 remove: exactly that key disappears");
	OBL (!g_found || g_found_val == pv, "C12 remove: every remaining key keeps its value");
	OBL (g_ok_balance, "C13 remove: red-black / AVL invariant holds after the operation");
	OBL (g_nk == ((existed && kn) ? 1u : 0u) && g_nv == ((existed && vn) ? 1u : 0u), "C14 remove: each given notifier runs once per removed pair, never otherwise");
	if (existed && kn && g_nk == 1) OBL (g_klog[0] == oldk, "C14 remove: the key passed to the notifier is the removed one, not one that stays stored");
	if (existed && vn && g_nv == 1) OBL (g_vlog[0] == oldv, "C14 remove: the value passed to the notifier is the removed one, not one that stays stored");
	/* whatever the notifiers, the pairs that stay are intact: the probe key still maps to its own key object */
	ppointer pk = NULL; if (pm && probe != k) { pre_member (probe, NULL, &pk); OBL (g_found_kptr == pk, "C12/C14 remove: stored pairs keep their own key objects"); }
#ifdef TWO_CHILD_ROOT
	if (PRES (LEFT (1)) && !PRES (RIGHT (1))) CANARY ("predecessor is the left child and has a child of its own");
	if (PRES (RIGHT (1))) CANARY ("predecessor further down");
#else
	if (existed) CANARY ("removed"); else CANARY ("absent key");
#endif
}

/* ================================================================== lookup / foreach / clear (ptree.c; node layout of the selected type) */
void h_lookup (void)
{
	PTree *t = build_tree (nondet_bool ());
	int k = nondet_int (); unsigned tag = nondet_uint (); __CPROVER_assume (tag < 16 && k > 0 && k < KMAX);
	ppointer v = NULL; _Bool m = pre_member (k, &v, NULL);
	ppointer r = p_tree_lookup (t, KEYARG (k, tag));
	OBL (r == (m ? v : NULL), "C12 lookup: current value or NULL");
	OBL (g_nk == 0 && g_nv == 0, "C14 lookup destroys nothing");
	if (m) CANARY ("found"); else CANARY ("not found");
}
/* ================================================================== two-step histories: observer, update, observer
 * The one-operation units start from a freshly built tree OBJECT (all fields the harness knows are symbolic, anything else is
 * as p_tree_new_full leaves it), so state that an operation leaves behind for the next one -- a cache, a "last found" slot, a
 * lazily maintained counter -- is seen only if two operations run on the same object.  lookup(k1); update(k2); lookup(k1)
 * with k1, k2 any keys (equal as keys but different objects included), update = insert (new or replace) or remove. */
void h_sequence (void)
{
	PTree *t = build_tree (nondet_bool ());
	int k1 = nondet_int (), k2 = nondet_int (); unsigned tag1 = nondet_uint (), tag2 = nondet_uint ();
	__CPROVER_assume (k1 > 0 && k1 < KMAX && k2 > 0 && k2 < KMAX && tag1 < 16 && tag2 < 16);
	ppointer key1 = KEYARG (k1, tag1), key2 = KEYARG (k2, tag2);
	ppointer v1 = NULL; _Bool m1 = pre_member (k1, &v1, NULL); _Bool m2 = pre_member (k2, NULL, NULL);
	ppointer r1 = p_tree_lookup (t, key1);
	OBL (r1 == (m1 ? v1 : NULL), "C12 history: first lookup gives the current value or NULL");
	_Bool do_insert = nondet_bool ();
	unsigned nv = nondet_uint (); __CPROVER_assume (nv < 64); ppointer value = (ppointer) (unsigned long) (nv * 8 + 4);
	g_alloc_failed = 0;
	pboolean rr = FALSE;
	if (do_insert) p_tree_insert (t, key2, value); else rr = p_tree_remove (t, key2);
	ppointer r2 = p_tree_lookup (t, key1);
	ppointer want = do_insert ? ((k1 == k2 && (m2 || !g_alloc_failed)) ? value : (m1 ? v1 : NULL)) : ((k1 == k2) ? NULL : (m1 ? v1 : NULL));
	OBL (r2 == want, "C12 history: a lookup after an insert/remove sees the update (and only the update), whatever was looked up before");
	OBL (do_insert || (rr == TRUE) == m2, "C12 history: remove after a lookup reports whether the key existed");
	ppointer r3 = p_tree_lookup (t, key2);
	OBL (r3 == (do_insert ? ((m2 || !g_alloc_failed) ? value : NULL) : NULL), "C12 history: the updated key itself reads back as updated");
	if (m1 && k1 == k2 && tag1 != tag2 && do_insert) CANARY ("replace through another key object after a hit");
	if (m1 && k1 == k2 && tag1 != tag2 && !do_insert) CANARY ("remove through another key object after a hit");
	if (!m1 && k1 == k2 && do_insert && !g_alloc_failed) CANARY ("insert after a miss");
}
int g_visit[NPOS + 1]; ppointer g_visit_val[NPOS + 1]; unsigned g_nvisit, g_stop_at;
static pboolean visitor (ppointer key, ppointer value, ppointer data)
{
	(void) data;
	if (g_nvisit <= NPOS) { g_visit[g_nvisit] = KEYOF (key); g_visit_val[g_nvisit] = value; }
	g_nvisit++;
	return g_nvisit == g_stop_at ? TRUE : FALSE;
}
void h_foreach (void)
{
	PTree *t = build_tree (nondet_bool ());
	unsigned n0 = pre_count ();
	g_nvisit = 0; g_stop_at = nondet_uint ();   /* 0 or > n0: never stop */
	p_tree_foreach (t, visitor, NULL);
	unsigned expect = (g_stop_at >= 1 && g_stop_at <= n0) ? g_stop_at : n0;
	OBL (g_nvisit == expect, "C12 foreach: visits every pair once, or exactly the smallest keys up to the stop");
	unsigned i = nondet_uint (); __CPROVER_assume (i < NPOS && i + 1 < g_nvisit);
	OBL (g_visit[i] < g_visit[i + 1], "C12 foreach: strictly ascending key order");
	unsigned j = nondet_uint (); __CPROVER_assume (j <= NPOS && j < g_nvisit);
	ppointer v = NULL; OBL (pre_member (g_visit[j], &v, NULL) && v == g_visit_val[j], "C12 foreach: visited pairs are stored pairs");
	/* the visited keys are the smallest: rank of the j-th visited key is j */
	unsigned smaller = 0; for (int q = 0; q < NPOS; q++) if (g_present[q] && g_key[q] < g_visit[j]) smaller++;
	OBL (smaller == j, "C12 foreach: the j-th visited key is the j-th smallest");
	/* tree unchanged (temporary threads removed), also after an early stop */
	int p = nondet_int (); __CPROVER_assume (p >= 0 && p < NPOS);
	if (g_present[p]) OBL (g_n[p]->base.left == (PRES (LEFT (p)) ? (PTreeBaseNode *) g_n[LEFT (p)] : NULL) && g_n[p]->base.right == (PRES (RIGHT (p)) ? (PTreeBaseNode *) g_n[RIGHT (p)] : NULL) &&
	                      g_n[p]->base.key == g_kptr[p] && g_n[p]->base.value == g_val[p], "C12 foreach: leaves the tree unchanged");
	OBL (t->root == (g_present[0] ? (PTreeBaseNode *) g_n[0] : NULL) && (unsigned) t->nnodes == n0 && g_nk == 0 && g_nv == 0, "C12/C14 foreach: root, count untouched, nothing destroyed");
	if (g_stop_at >= 1 && g_stop_at < n0) CANARY ("stopped early"); if (g_nvisit == n0 && n0 == NPOS) CANARY ("full traversal of a full tree");
}
void h_clear (void)
{
	_Bool kn = nondet_bool (), vn = nondet_bool ();   /* key and value notifiers are independent: none, one of them, or both */
	PTree *t = build_tree2 (kn, vn);
	unsigned n0 = pre_count ();
	g_frees = 0;
	p_tree_clear (t);
	OBL (t->root == NULL && p_tree_get_nnodes (t) == 0, "C12 clear: empties the tree");
	OBL (g_frees == n0, "C12/C20 clear: every node released exactly once");
	OBL (g_nk == (kn ? n0 : 0u) && g_nv == (vn ? n0 : 0u), "C14 clear: each given notifier runs once per stored pair, a missing one never (user data it would own is not touched)");
	int p = nondet_int (); __CPROVER_assume (p >= 0 && p < NPOS);
	if (g_present[p]) { unsigned c = 0, cv = 0; for (unsigned q = 0; q < LOGMAX; q++) { if (q < g_nk && g_klog[q] == g_kptr[p]) c++; if (q < g_nv && g_vlog[q] == g_val[p]) cv++; }
		OBL ((!kn || c == 1) && (!vn || cv >= 1), "C14 clear: every stored key is passed to its notifier exactly once, every value at least once"); }
	if (kn != vn && n0 > 0) CANARY ("exactly one notifier");
	p_tree_free (t);
	CANARY ("end");
}
