"""tree obligation units shared by C12, C13, C14 (one bounded harness family)"""
SRC = ["ptree.c", "ptree-bst.c", "ptree-rb.c", "ptree-avl.c"]
def T(id, entry, tree, **kw):
    hq, ht = (3, 4) if tree == "bst" else (2, 3)   # measured: rb/avl at H=3 take 5-12 min per unit, at H=2 under a minute
    d = dict(id=id, harness="../trees/tree.c", entry=entry, sources=SRC, enforce=None, replace=[], timeout=1500, timeout_thorough=7200, mem_gb=16,
             defines=["TREE_" + tree.upper()], defines_quick=["H=%d" % hq], defines_thorough=["H=%d" % ht],
             cbmc_flags=["--unwinding-assertions", "--object-bits", "10"], cbmc_flags_quick=["--unwind", "10"], cbmc_flags_thorough=["--unwind", "18"],
             bound={"quick": "any well-formed %s tree of height <= %d (<= %d nodes), one operation" % (tree, hq, 2 ** hq - 1), "thorough": "any well-formed %s tree of height <= %d (<= %d nodes), one operation" % (tree, ht, 2 ** ht - 1)},
             functions=[])
    d.update(kw); return d
UNITS = []
for tr in ("bst", "rb", "avl"):
    fi = ["p_tree_%s_insert" % tr, "p_tree_insert"] + (["pp_tree_%s_balance_insert" % tr, "pp_tree_%s_rotate_left" % tr, "pp_tree_%s_rotate_right" % tr] if tr != "bst" else [])
    fr = ["p_tree_%s_remove" % tr, "p_tree_remove"] + (["pp_tree_%s_balance_remove" % tr] if tr != "bst" else [])
    UNITS.append(T("%s_insert" % tr, "h_insert", tr, canaries=3, functions=fi))
    UNITS.append(T("%s_remove" % tr, "h_remove", tr, canaries=2, functions=fr, replay={"driver": "C14_replay.c", "mode": "remove", "args": []}))
UNITS.append(T("lookup", "h_lookup", "bst", canaries=2, functions=["p_tree_lookup"]))
# foreach / clear at height 4 did not finish within 100 minutes: the thorough tier keeps the quick bound for these two
WALK3 = dict(defines_thorough=["H=3"], cbmc_flags_quick=["--unwind", "17"], cbmc_flags_thorough=["--unwind", "17"],
             bound={"quick": "any well-formed bst tree of height <= 3 (<= 7 nodes), one operation", "thorough": "any well-formed bst tree of height <= 3 (<= 7 nodes), one operation (height 4 did not finish in 100 minutes)"})
UNITS.append(T("foreach", "h_foreach", "bst", canaries=2, functions=["p_tree_foreach"], **WALK3))
UNITS.append(T("clear", "h_clear", "bst", canaries=2, functions=["p_tree_clear", "p_tree_free", "p_tree_get_nnodes"], **WALK3))
UNITS.append(T("rb_clear", "h_clear", "rb", canaries=2, functions=[], cbmc_flags_quick=["--unwind", "17"], cbmc_flags_thorough=["--unwind", "34"]))
# ---- rotation lemmas (rot.c): loop-free, every window, subtrees of any size and ghost height -> unbounded; shared by C12 (in-order
# sequence and links preserved) and C13 (AVL: stored balance factors = real height differences after the rotation)
def R(id, entry, defs, fn, canaries):
    return dict(id=id, harness="../trees/rot.c", entry=entry, sources=["ptree-rb.c", "ptree-avl.c"], enforce=None, replace=[], timeout=600, defines=defs, canaries=canaries,
                cbmc_flags=["--object-bits", "10"], functions=[fn])
ROT_UNITS = [
    R("rot_rb_left", "h_single", ["ROT_RB"], "pp_tree_rb_rotate_left", 4),
    R("rot_rb_right", "h_single", ["ROT_RB", "MIRROR"], "pp_tree_rb_rotate_right", 4),
    R("rot_avl_left", "h_single", [], "pp_tree_avl_rotate_left", 6),
    R("rot_avl_right", "h_single", ["MIRROR"], "pp_tree_avl_rotate_right", 6),
    R("rot_avl_left_right", "h_double", [], "pp_tree_avl_rotate_left_right", 5),
    R("rot_avl_right_left", "h_double", ["MIRROR"], "pp_tree_avl_rotate_right_left", 5),
]
# AVL retrace step lemmas: one step of the real balance loops on a symbolic window, subtrees of any height (C13 only)
STEP_UNITS = [
    R("avl_insert_step_left", "h_avl_insert_step", [], "pp_tree_avl_balance_insert", 6),
    R("avl_insert_step_right", "h_avl_insert_step", ["MIRROR"], "pp_tree_avl_balance_insert", 6),
]
# removal: case 0 (no rotation) only.  The rotation cases (-DREMCASE=1, 2) exist in the harness; case 1 held once (342 s, > 20 GB of solver memory), case 2 was still
# running at 20 GB -- too heavy to run beside the other units, so they are not registered (DESIGN.md section 0A); the rotations themselves are covered by rot_avl_*.
for _c, _can in ((0, 4),):
    STEP_UNITS.append(R("avl_remove_step_left_case%d" % _c, "h_avl_remove_step", ["REMCASE=%d" % _c], "pp_tree_avl_balance_remove", _can))
    STEP_UNITS.append(R("avl_remove_step_right_case%d" % _c, "h_avl_remove_step", ["REMCASE=%d" % _c, "MIRROR"], "pp_tree_avl_balance_remove", _can))

# two-step histories (observer, update, observer on the same tree object): state an operation leaves behind for the next one
SEQ_UNITS = [T("%s_sequence" % tr, "h_sequence", tr, canaries=3, functions=["p_tree_lookup", "p_tree_insert", "p_tree_remove"] if tr == "bst" else [],
               defines_quick=["H=2"], defines_thorough=["H=2" if tr == "avl" else "H=3"],
               bound={"quick": "any well-formed %s tree of height <= 2 (<= 3 nodes), lookup / insert-or-remove / lookup with any two keys" % tr,
                      "thorough": ("height <= 2 as in the quick tier (height 3 did not finish in 20 minutes)" if tr == "avl" else "height <= 3 (<= 7 nodes), same three-call history")})
             for tr in ("bst", "rb", "avl")]
for _u in STEP_UNITS:   # the real loop runs at most twice here (asserted); the other loops are the fixed-size ones of the window evaluator
    _u["cbmc_flags"] = ["--object-bits", "10", "--unwind", "9", "--unwindset", ("pp_tree_avl_balance_insert.0:3" if "insert" in _u["id"] else "pp_tree_avl_balance_remove.0:3"), "--unwinding-assertions"]
    _u["mem_gb"] = 16; _u["timeout"] = 900
