/* Native replay for C04 (sim model): runs the real patomic-sim.c (UBSan) on the
 * operand values of the counterexample and compares with wrapping C arithmetic. */
#include <plibsys.h>
#include <stdio.h>
#include <stdlib.h>
#include <string.h>
static long long arg (int argc, char **argv, const char *k, long long def)
{
	size_t n = strlen (k);
	for (int i = 2; i < argc; i++)
		if (!strncmp (argv[i], k, n) && argv[i][n] == '=') return (long long) strtoull (argv[i] + n + 1, NULL, 0) ;
	return def;
}
int main (int argc, char **argv)
{
	const char *op = argc > 1 ? argv[1] : "";
	p_libsys_init ();
	volatile pint w32 = (pint) arg (argc, argv, "g_pre32", 0x7fffffff);
	volatile pssize w64 = (pssize) arg (argc, argv, "g_pre64", 0x7fffffffffffffffLL);
	long long v = arg (argc, argv, "val", arg (argc, argv, "v", 1));
	int bad = 0;
	if (!strcmp (op, "int_inc")) { pint o = w32; p_atomic_int_inc (&w32); bad = (puint) w32 != (puint) o + 1u; }
	else if (!strcmp (op, "int_dec_and_test")) { pint o = w32; pboolean r = p_atomic_int_dec_and_test (&w32); bad = (puint) w32 != (puint) o - 1u || (r != 0) != (o == 1); }
	else if (!strcmp (op, "int_add")) { pint o = w32; pint r = p_atomic_int_add (&w32, (pint) v); bad = r != o || (puint) w32 != (puint) o + (puint) v; }
	else if (!strcmp (op, "pointer_add")) { pssize o = w64; pssize r = p_atomic_pointer_add (&w64, (pssize) v); bad = r != o || (psize) w64 != (psize) o + (psize) v; }
	if (bad) printf ("REPRODUCED: wrong value\n"); else printf ("NOT-REPRODUCED (value as expected; UBSan report above, if any, counts)\n");
	return 0;
}
