/* Native replay for C06: real psemaphore-posix.c against the real kernel.
 * mode new: existed=<0|1> mode=<PSemaphoreAccessMode> init_val=<n> -- prepares the name state of the
 * counterexample, calls p_semaphore_new and compares handle/counter with the property. */
#include <plibsys.h>
#include <stdio.h>
#include <stdlib.h>
#include <string.h>
#include <unistd.h>
#include <fcntl.h>
#include <semaphore.h>
extern pchar *p_ipc_get_platform_key (const pchar *name, pboolean posix);
static long arg (int argc, char **argv, const char *k, long def)
{
	size_t n = strlen (k);
	for (int i = 2; i < argc; i++)
		if (!strncmp (argv[i], k, n) && argv[i][n] == '=') {
			const char *v = argv[i] + n + 1;
			if (!strcmp (v, "TRUE")) return 1; if (!strcmp (v, "FALSE")) return 0;
			if (strstr (v, "CREATE")) return P_SEM_ACCESS_CREATE; if (strstr (v, "OPEN")) return P_SEM_ACCESS_OPEN;
			return strtol (v, NULL, 0);
		}
	return def;
}
static int kernel_value (const char *name)
{
	char full[256]; snprintf (full, sizeof full, "%s_p_sem_object", name);
	pchar *key = p_ipc_get_platform_key (full, TRUE);
	sem_t *h = sem_open (key, 0);
	int v = -1;
	if (h != SEM_FAILED) { sem_getvalue (h, &v); sem_close (h); } else v = -2;
	p_free (key);
	return v;
}
int main (int argc, char **argv)
{
	p_libsys_init ();
	char name[64]; snprintf (name, sizeof name, "verif_c06_%d", (int) getpid ());
	int existed = (int) arg (argc, argv, "existed", 1);
	int mode = (int) arg (argc, argv, "mode", P_SEM_ACCESS_CREATE);
	int init_val = (int) arg (argc, argv, "init_val", 3);
	if (init_val < 0 || init_val > 1000) init_val = 3;
	int bad = 0;
	PSemaphore *first = NULL;
	if (existed) {
		first = p_semaphore_new (name, init_val + 2, P_SEM_ACCESS_OPEN, NULL);   /* creates it with a different value */
		if (!first) { printf ("setup failed\n"); return 0; }
	}
	PSemaphore *s = p_semaphore_new (name, init_val, (PSemaphoreAccessMode) mode, NULL);
	if (s == NULL) { printf ("REPRODUCED: p_semaphore_new(existed=%d, mode=%d, init=%d) returned NULL without an allocation or genuine native failure\n", existed, mode, init_val); bad = 1; }
	else {
		int v = kernel_value (name);
		int want = (existed && mode == P_SEM_ACCESS_OPEN) ? init_val + 2 : init_val;
		if (v != want) { printf ("REPRODUCED: counter of the name is %d, expected %d (existed=%d mode=%d)\n", v, want, existed, mode); bad = 1; }
	}
	/* documented clean-up */
	if (s) { p_semaphore_take_ownership (s); p_semaphore_free (s); }
	if (first) { p_semaphore_take_ownership (first); p_semaphore_free (first); }
	PSemaphore *c = p_semaphore_new (name, 0, P_SEM_ACCESS_OPEN, NULL);
	if (c) { p_semaphore_take_ownership (c); p_semaphore_free (c); }
	if (!bad) printf ("NOT-REPRODUCED\n");
	return 0;
}
