/* Native replay for C07/C20 (pshm-posix.c against the real kernel).
 * mode free_maplen: a 3-page segment re-opened with a smaller size and freed again must leave no mapping behind.
 * mode zero_size: a leftover segment of size 0 (process killed between shm_open and ftruncate) must be openable for clean-up.
 * mode first_open_race: creator A is held at its first sem_open() (interposed) until opener B has finished p_shm_new on the
 *   same name; afterwards A and B must exclude each other through p_shm_lock. */
#define _GNU_SOURCE
#include <dlfcn.h>
#include <pthread.h>
#include <semaphore.h>
#include <stdarg.h>
#include <plibsys.h>
#include <stdio.h>
#include <stdlib.h>
#include <string.h>
#include <unistd.h>
#include <fcntl.h>
#include <sys/mman.h>
extern pchar *p_ipc_get_platform_key (const pchar *name, pboolean posix);
static int maps_of (const char *key)
{
	FILE *f = fopen ("/proc/self/maps", "r"); char line[512]; int n = 0;
	while (f && fgets (line, sizeof line, f)) if (strstr (line, key + 1)) n++;
	if (f) fclose (f);
	return n;
}
/* ---- forced interleaving for first_open_race */
static volatile int race_on, gate_passed, b_done, b_locked;
static pthread_t creator_thread; static const char *race_name; static PShm *race_b;
static void *opener (void *arg) { race_b = p_shm_new (race_name, 4096, P_SHM_ACCESS_READWRITE, NULL); b_done = 1; return NULL; }
static void *b_locker (void *arg) { if (p_shm_lock (race_b, NULL)) { b_locked = 1; p_shm_unlock (race_b, NULL); } return NULL; }
sem_t *sem_open (const char *name, int oflag, ...)
{
	static sem_t *(*real) (const char *, int, ...);
	if (!real) real = (sem_t *(*) (const char *, int, ...)) dlsym (RTLD_NEXT, "sem_open");
	va_list ap; va_start (ap, oflag); unsigned mode = 0, value = 0; if (oflag & O_CREAT) { mode = va_arg (ap, unsigned); value = va_arg (ap, unsigned); } va_end (ap);
	if (race_on && !gate_passed && pthread_equal (pthread_self (), creator_thread)) {
		gate_passed = 1;                         /* the creator has created, sized and mapped the segment; its lock does not exist yet */
		pthread_t t; pthread_create (&t, NULL, opener, NULL);
		pthread_join (t, NULL);                  /* the second "process" opens the name completely in the meantime */
	}
	return (oflag & O_CREAT) ? real (name, oflag, mode, value) : real (name, oflag);
}
int main (int argc, char **argv)
{
	const char *mode = argc > 1 ? argv[1] : "free_maplen";
	p_libsys_init ();
	char name[64], full[128]; snprintf (name, sizeof name, "verif_c07_%d", (int) getpid ()); snprintf (full, sizeof full, "%s_p_shm_object", name);
	pchar *key = p_ipc_get_platform_key (full, TRUE);
	int bad = 0;
	if (!strcmp (mode, "zero_size")) {
		int fd = shm_open (key, O_CREAT | O_EXCL | O_RDWR, 0660);   /* what a creator killed before ftruncate leaves */
		if (fd >= 0) close (fd);
		PShm *s = p_shm_new (name, 0, P_SHM_ACCESS_READWRITE, NULL);
		if (s == NULL) { printf ("REPRODUCED: zero-size leftover cannot be opened for clean-up (p_shm_new returns NULL)\n"); bad = 1; shm_unlink (key); }
		else { p_shm_take_ownership (s); p_shm_free (s); }
	} else if (!strcmp (mode, "first_open_race")) {
		race_name = name; creator_thread = pthread_self (); race_on = 1;
		PShm *a = p_shm_new (name, 4096, P_SHM_ACCESS_READWRITE, NULL);
		race_on = 0;
		if (a == NULL || race_b == NULL) {
			printf ("REPRODUCED: concurrent first open: %s failed although no system call reported a fault\n", a == NULL ? "the creator's p_shm_new" : "the opener's p_shm_new"); bad = 1;
		} else {
			p_shm_lock (a, NULL);                    /* A holds the lock of the name ... */
			pthread_t t; pthread_create (&t, NULL, b_locker, NULL);
			for (int i = 0; i < 100 && !b_locked; i++) usleep (10000);
			if (b_locked) { printf ("REPRODUCED: concurrent first open: both handles of the name held p_shm_lock at the same time (their lock semaphores differ)\n"); bad = 1; }
			p_shm_unlock (a, NULL);                  /* ... release it so that a correctly blocked B can finish */
			pthread_join (t, NULL);
		}
		if (race_b) p_shm_free (race_b);
		if (a) { p_shm_take_ownership (a); p_shm_free (a); }
		{ char semfull[160]; pchar *k2; snprintf (semfull, sizeof semfull, "%s_p_sem_object", key); k2 = p_ipc_get_platform_key (semfull, TRUE); if (k2) { sem_unlink (k2); p_free (k2); } shm_unlink (key); }
	} else {
		PShm *a = p_shm_new (name, 3 * 4096, P_SHM_ACCESS_READWRITE, NULL);
		if (!a) { printf ("setup failed\n"); return 0; }
		int m1 = maps_of (key);
		PShm *b = p_shm_new (name, 100, P_SHM_ACCESS_READWRITE, NULL);
		if (b) {
			int m2 = maps_of (key);
			p_shm_free (b);
			int m3 = maps_of (key);
			if (m3 != m1) { printf ("REPRODUCED: %d mapping(s) of the segment before the second handle, %d with it, %d after freeing it: part of its mapping stays\n", m1, m2, m3); bad = 1; }
		}
		p_shm_take_ownership (a); p_shm_free (a);
	}
	p_free (key);
	if (!bad) printf ("NOT-REPRODUCED\n");
	return 0;
}
