/* Native replay for C07/C20 (pshm-posix.c against the real kernel).
 * mode free_maplen: a 3-page segment re-opened with a smaller size and freed again must leave no mapping behind.
 * mode zero_size: a leftover segment of size 0 (process killed between shm_open and ftruncate) must be openable for clean-up. */
#include <plibsys.h>
#include <stdio.h>
#include <stdlib.h>
#include <string.h>
#include <unistd.h>
#include <fcntl.h>
#include <sys/mman.h>
extern pchar *p_ipc_get_platform_key (const pchar *name, pboolean posix);
static int maps_of (const char *key)
{
	FILE *f = fopen ("/proc/self/maps", "r"); char line[512]; int n = 0;
	while (f && fgets (line, sizeof line, f)) if (strstr (line, key + 1)) n++;
	if (f) fclose (f);
	return n;
}
int main (int argc, char **argv)
{
	const char *mode = argc > 1 ? argv[1] : "free_maplen";
	p_libsys_init ();
	char name[64], full[128]; snprintf (name, sizeof name, "verif_c07_%d", (int) getpid ()); snprintf (full, sizeof full, "%s_p_shm_object", name);
	pchar *key = p_ipc_get_platform_key (full, TRUE);
	int bad = 0;
	if (!strcmp (mode, "zero_size")) {
		int fd = shm_open (key, O_CREAT | O_EXCL | O_RDWR, 0660);   /* what a creator killed before ftruncate leaves */
		if (fd >= 0) close (fd);
		PShm *s = p_shm_new (name, 0, P_SHM_ACCESS_READWRITE, NULL);
		if (s == NULL) { printf ("REPRODUCED: zero-size leftover cannot be opened for clean-up (p_shm_new returns NULL)\n"); bad = 1; shm_unlink (key); }
		else { p_shm_take_ownership (s); p_shm_free (s); }
	} else {
		PShm *a = p_shm_new (name, 3 * 4096, P_SHM_ACCESS_READWRITE, NULL);
		if (!a) { printf ("setup failed\n"); return 0; }
		int m1 = maps_of (key);
		PShm *b = p_shm_new (name, 100, P_SHM_ACCESS_READWRITE, NULL);
		if (b) {
			int m2 = maps_of (key);
			p_shm_free (b);
			int m3 = maps_of (key);
			if (m3 != m1) { printf ("REPRODUCED: %d mapping(s) of the segment before the second handle, %d with it, %d after freeing it: part of its mapping stays\n", m1, m2, m3); bad = 1; }
		}
		p_shm_take_ownership (a); p_shm_free (a);
	}
	p_free (key);
	if (!bad) printf ("NOT-REPRODUCED\n");
	return 0;
}
