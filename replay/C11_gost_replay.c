/* Native replay for C11 (GOST checksum): the real pp_crypto_hash_gost3411_sum_256 on the carry pattern of the counterexample. */
#include <stdio.h>
#include <string.h>
#include "pcryptohash-gost3411.c"
int main (void)
{
	puint32 a[8] = {0xFFFFFFFFu, 0xFFFFFFFFu, 0, 0, 0, 0, 0, 0}, b[8] = {1, 0xFFFFFFFFu, 0, 0, 0, 0, 0, 0};
	pp_crypto_hash_gost3411_sum_256 (a, b);
	/* (2^64 - 1) + (2^64 - 2^32 + 1) = 2^65 - 2^32 = limbs {0, 0xFFFFFFFF, 1, 0, ...} */
	if (a[0] != 0 || a[1] != 0xFFFFFFFFu || a[2] != 1) printf ("REPRODUCED: 256-bit sum loses the carry out of limb 1: got {%08x, %08x, %08x}, expected {00000000, ffffffff, 00000001}\n", a[0], a[1], a[2]);
	else printf ("NOT-REPRODUCED\n");
	return 0;
}
