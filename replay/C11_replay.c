/* Native replay for C11: chunking independence on the real code around the 2^32-byte boundary.
 * mode update4g alg=<PCryptoHashType number>: digest(1 byte, then ONE update of 2^32+5 bytes) must equal
 * digest(the same bytes in 1 GiB updates). */
#include <plibsys.h>
#include <stdio.h>
#include <stdlib.h>
#include <string.h>
static long arg (int argc, char **argv, const char *k, long def)
{
	size_t n = strlen (k);
	for (int i = 2; i < argc; i++) if (!strncmp (argv[i], k, n) && argv[i][n] == '=') return strtol (argv[i] + n + 1, NULL, 0);
	return def;
}
int main (int argc, char **argv)
{
	p_libsys_init ();
	int alg = (int) arg (argc, argv, "alg", P_CRYPTO_HASH_TYPE_MD5);
	size_t big = ((size_t) 1 << 32) + 5;
	unsigned char *buf = calloc (1, big + 1);
	if (!buf) { printf ("no memory for the replay\n"); return 0; }
	for (size_t i = 0; i < big + 1; i += 4099) buf[i] = (unsigned char) (i * 31 + 7);
	PCryptoHash *a = p_crypto_hash_new ((PCryptoHashType) alg), *b = p_crypto_hash_new ((PCryptoHashType) alg);
	p_crypto_hash_update (a, buf, 1); p_crypto_hash_update (a, buf + 1, big);
	size_t off = 0, total = big + 1;
	while (off < total) { size_t n = total - off > ((size_t) 1 << 30) ? ((size_t) 1 << 30) : total - off; p_crypto_hash_update (b, buf + off, n); off += n; }
	char *sa = p_crypto_hash_get_string (a), *sb = p_crypto_hash_get_string (b);
	if (strcmp (sa, sb)) printf ("REPRODUCED: algorithm %d: one update of 2^32+5 bytes gives %s, the same bytes in 1 GiB updates give %s\n", alg, sa, sb);
	else printf ("NOT-REPRODUCED\n");
	return 0;
}
