/* Native replay for C14 (and C12): removing a node with two children must pass exactly the removed pair to the notifiers. */
#include <plibsys.h>
#include <stdio.h>
#include <stdlib.h>
static int *klog[16], *vlog[16]; static int nk, nv;
static void kd (ppointer p) { klog[nk++ & 15] = p; }
static void vd (ppointer p) { vlog[nv++ & 15] = p; }
static pint cmp (pconstpointer a, pconstpointer b, ppointer d) { (void) d; return *(const int *) a - *(const int *) b; }
int main (void)
{
	p_libsys_init ();
	int bad = 0;
	PTreeType types[3] = {P_TREE_TYPE_BINARY, P_TREE_TYPE_RB, P_TREE_TYPE_AVL};
	for (int t = 0; t < 3; t++) {
		PTree *tr = p_tree_new_full (types[t], cmp, NULL, kd, vd);
		int *k[3], *v[3];
		int order[3] = {20, 10, 30};
		for (int i = 0; i < 3; i++) { k[i] = malloc (sizeof (int)); v[i] = malloc (sizeof (int)); *k[i] = order[i]; *v[i] = order[i] * 100; p_tree_insert (tr, k[i], v[i]); }
		nk = nv = 0;
		int probe = 20;
		p_tree_remove (tr, &probe);   /* node 20 has two children */
		if (nk != 1 || nv != 1 || klog[0] != k[0] || vlog[0] != v[0]) {
			printf ("REPRODUCED: tree type %d: remove(20) notified key %d / value %d (%d key, %d value notifications); the removed pair is 20 / 2000\n",
			        t, nk ? *klog[0] : -1, nv ? *vlog[0] : -1, nk, nv);
			bad = 1;
		}
		/* not freeing the tree: with the defect the stored pair of 10 would be notified a second time */
	}
	if (!bad) printf ("NOT-REPRODUCED\n");
	return 0;
}
