/* Native replay for C15: the bucket function on the pointer value of the counterexample (UBSan reports the overflow). */
#include <plibsys.h>
#include <stdio.h>
#include <stdlib.h>
#include <string.h>
int main (int argc, char **argv)
{
	p_libsys_init ();
	unsigned long v = 0x7fffffffUL;
	for (int i = 2; i < argc; i++) { char *e = strchr (argv[i], '='); if (e) { unsigned long t = strtoul (e + 1, NULL, 0); if (t) v = t; } }
	unsigned long vals[3] = {v, 0x7fffffffUL, 0x1234567fffffffUL};
	PHashTable *t = p_hash_table_new ();
	for (int i = 0; i < 3; i++) {
		p_hash_table_insert (t, (ppointer) vals[i], (ppointer) (vals[i] ^ 0x55));
		if (p_hash_table_lookup (t, (ppointer) vals[i]) != (ppointer) (vals[i] ^ 0x55)) printf ("REPRODUCED: key %#lx not found after insert\n", vals[i]);
	}
	p_hash_table_free (t);
	printf ("done (a UBSan 'signed integer overflow' report above counts as reproduction)\n");
	return 0;
}
