/* Native replay for C17: runs the real psocketaddress.c (gcc, ASan+UBSan) on the
 * buffer length of the counterexample, for every family prefix, and compares
 * with the property: too-small buffers fail without out-of-bounds access
 * (ASan reports those), large-enough ones round-trip. */
#include <plibsys.h>
#include <stdio.h>
#include <stdlib.h>
#include <string.h>
#include <sys/socket.h>
#include <netinet/in.h>

static unsigned long arg (int argc, char **argv, const char *k, unsigned long def)
{
	size_t n = strlen (k);
	for (int i = 2; i < argc; i++)
		if (!strncmp (argv[i], k, n) && argv[i][n] == '=') return strtoul (argv[i] + n + 1, NULL, 0);
	return def;
}

int main (int argc, char **argv)
{
	const char *mode = argc > 1 ? argv[1] : "";
	int bad = 0;
	p_libsys_init ();
	if (!strcmp (mode, "new_from_native")) {
		unsigned long len = arg (argc, argv, "len", 1);
		if (len > (1ul << 20)) len = 1ul << 20;
		int fams[3] = {AF_INET, AF_INET6, AF_UNIX};
		for (int f = 0; f < 3; f++) {
			struct sockaddr_in6 full;
			for (size_t i = 0; i < sizeof full; i++) ((unsigned char *) &full)[i] = (unsigned char) (i * 7 + 1);  /* all fields distinct */
			full.sin6_family = fams[f];
			unsigned char *buf = malloc (len ? len : 1);  /* exactly len bytes: ASan guards the rest */
			memset (buf, 0x5a, len);
			memcpy (buf, &full, len < sizeof full ? len : sizeof full);
			PSocketAddress *a = p_socket_address_new_from_native (len ? buf : NULL, len);
			size_t need = fams[f] == AF_INET ? sizeof (struct sockaddr_in) : sizeof (struct sockaddr_in6);
			int want = fams[f] != AF_UNIX && len >= need;
			if ((a != NULL) != want) { printf ("REPRODUCED: len=%lu family=%d result %p, expected %s\n", len, fams[f], (void *) a, want ? "address" : "NULL"); bad = 1; }
			if (a) {
				struct sockaddr_in6 back; memset (&back, 0, sizeof back);
				if (!p_socket_address_to_native (a, &back, sizeof back) || memcmp (&back, buf, fams[f] == AF_INET ? 8 : sizeof (struct sockaddr_in6))) {
					printf ("REPRODUCED: round trip differs for family %d\n", fams[f]); bad = 1; }
				p_socket_address_free (a);
			}
			free (buf);
		}
	} else if (!strcmp (mode, "to_native")) {
		unsigned long destlen = arg (argc, argv, "destlen", 1);
		if (destlen > (1ul << 20)) destlen = 1ul << 20;
		PSocketFamily fams[2] = {P_SOCKET_FAMILY_INET, P_SOCKET_FAMILY_INET6};
		for (int f = 0; f < 2; f++) {
			PSocketAddress *a = p_socket_address_new_loopback (fams[f], 0x1234);
			unsigned char *buf = malloc (destlen ? destlen : 1);
			pboolean r = p_socket_address_to_native (a, destlen ? buf : NULL, destlen);
			int want = destlen >= p_socket_address_get_native_size (a);
			if ((r != FALSE) != want) { printf ("REPRODUCED: destlen=%lu family=%d result %d, expected %d\n", destlen, fams[f], r, want); bad = 1; }
			if (r) {
				PSocketAddress *b = p_socket_address_new_from_native (buf, destlen);
				if (!b || p_socket_address_get_port (b) != 0x1234 || !p_socket_address_is_loopback (b)) { printf ("REPRODUCED: to_native output does not convert back\n"); bad = 1; }
				if (b) p_socket_address_free (b);
			}
			free (buf);
			p_socket_address_free (a);
		}
	}
	if (!bad) printf ("NOT-REPRODUCED\n");
	return 0;
}
