/* Native replay for C18: real code with an allocator table (p_mem_set_vtable) that fails the k-th allocation, for every k.
 * mode dir: p_dir_new / p_dir_get_next_entry on an existing directory; mode rwlock: p_rwlock_new (general model).
 * mode ini: parse + free; mode ini_getter<0-3>: sections / keys / parameter_string / parameter_list after a successful parse.
 * ASan/UBSan or a crash (SIGSEGV in a child) is the reproduction. */
#include <plibsys.h>
#include <stdio.h>
#include <stdlib.h>
#include <string.h>
#include <unistd.h>
#include <sys/wait.h>
static int fail_at, count, live;
static ppointer fm (psize n) { if (++count == fail_at) return NULL; live++; return malloc (n); }
static ppointer fr (ppointer p, psize n) { if (++count == fail_at) return NULL; if (!p) live++; return realloc (p, n); }
static void ff (ppointer p) { if (p) live--; free (p); }
static void scenario (const char *mode)
{
	if (!strcmp (mode, "dir")) {
		PDir *d = p_dir_new ("/tmp", NULL);
		if (d) { PDirEntry *e = p_dir_get_next_entry (d, NULL); if (e) p_dir_entry_free (e); p_dir_free (d); }
	} else if (!strcmp (mode, "ini")) {
		PIniFile *f = p_ini_file_new ("/tmp/verif_c18_replay.ini");
		if (f) { p_ini_file_parse (f, NULL); p_ini_file_free (f); }
		if (live != 0) { printf ("leak: %d block(s) still allocated after p_ini_file_free\n", live); _exit (3); }
	} else if (!strncmp (mode, "ini_getter", 10)) {
		/* parse with a working allocator, then fail the k-th allocation made by the getter; the caller releases the result */
		int k = fail_at, which = mode[10] ? mode[10] - '0' : 0; fail_at = 0;
		PIniFile *f = p_ini_file_new ("/tmp/verif_c18_replay.ini");
		if (!f || !p_ini_file_parse (f, NULL)) _exit (0);
		int live0 = live; fail_at = count + k;
		PList *l = NULL; pchar *r = NULL;
		if (which == 0) l = p_ini_file_sections (f); else if (which == 1) l = p_ini_file_keys (f, "a"); else if (which == 2) r = p_ini_file_parameter_string (f, "a", "k", NULL); else l = p_ini_file_parameter_list (f, "b", "x");
		for (PList *c = l; c; c = c->next) p_free (c->data);
		p_list_free (l); p_free (r);
		if (live != live0) { printf ("leak: %d block(s) allocated by the getter remain after its result was released\n", live - live0); _exit (3); }
		p_ini_file_free (f);
	} else {
		PRWLock *l = p_rwlock_new ();
		if (l) p_rwlock_free (l);
	}
}
int main (int argc, char **argv)
{
	const char *mode = argc > 1 ? argv[1] : "dir";
	p_libsys_init ();
	int bad = 0;
	if (!strncmp (mode, "ini", 3)) { FILE *t = fopen ("/tmp/verif_c18_replay.ini", "w"); if (t) { fputs ("[a]\nk = v\n[b]\nx = {p q}\n", t); fclose (t); } }
	for (int k = 1; k <= 24; k++) {
		fflush (stdout);
		pid_t pid = fork ();
		if (pid == 0) {
			PMemVTable vt = {fm, fr, ff};
			p_mem_set_vtable (&vt);
			fail_at = k; count = 0;
			scenario (mode);
			_exit (0);
		}
		int st = 0; waitpid (pid, &st, 0);
		if (!WIFEXITED (st) || WEXITSTATUS (st) != 0) { printf ("REPRODUCED: %s with allocation #%d failing: child %s %d\n", mode, k, WIFSIGNALED (st) ? "killed by signal" : "exit", WIFSIGNALED (st) ? WTERMSIG (st) : WEXITSTATUS (st)); bad = 1; }
	}
	unlink ("/tmp/verif_c18_replay.ini");
	if (!bad) printf ("NOT-REPRODUCED\n");
	return 0;
}
