/* Native replay for C19: real p_uthread_sleep under handled signals (no SA_RESTART). */
#include <plibsys.h>
#include <stdio.h>
#include <string.h>
#include <signal.h>
#include <time.h>
#include <sys/time.h>
static volatile int hits;
static void on_alarm (int s) { (void) s; hits++; }
static double now_ms (void) { struct timespec t; clock_gettime (CLOCK_MONOTONIC, &t); return t.tv_sec * 1e3 + t.tv_nsec / 1e6; }
int main (int argc, char **argv)
{
	p_libsys_init ();
	struct sigaction sa; memset (&sa, 0, sizeof sa); sa.sa_handler = on_alarm; sigaction (SIGALRM, &sa, NULL);
	struct itimerval it = {{0, 20000}, {0, 20000}};
	int bad = 0;
	unsigned durs[3] = {300, 55, 1001};
	for (int i = 0; i < 3; i++) {
		hits = 0; setitimer (ITIMER_REAL, &it, NULL);
		double t0 = now_ms ();
		int r = p_uthread_sleep (durs[i]);
		double dt = now_ms () - t0;
		struct itimerval off = {{0, 0}, {0, 0}}; setitimer (ITIMER_REAL, &off, NULL);
		if (r != 0) { printf ("REPRODUCED: p_uthread_sleep(%u) returned %d after %.1f ms and %d handled signals (no genuine error)\n", durs[i], r, dt, hits); bad = 1; }
		else if (dt + 0.5 < durs[i]) { printf ("REPRODUCED: p_uthread_sleep(%u) returned 0 after only %.1f ms (%d signals)\n", durs[i], dt, hits); bad = 1; }
	}
	if (!bad) printf ("NOT-REPRODUCED\n");
	return 0;
}
