/* Native search for a failing input of the socket units (C09 / C10 / C19 / C20): the REAL psocket.c is linked with
 * interposed BSD socket calls whose results come from a fault script; every script up to a depth bound is run (depth-first,
 * odometer over the choices made so far) and the oracle of the failed unit is evaluated after each run.  A script that
 * violates the oracle is printed as the failing input ("REPRODUCED: ...").  This is a bounded native search, not a proof:
 * NOT-REPRODUCED only means no script within the bound shows the violation.
 * usage: sock_replay <mode>      mode = accept | io_condition_wait | send | receive | send_to | receive_from | connect | close | new */
#define _GNU_SOURCE
#include <plibsys.h>
#include <stdio.h>
#include <stdlib.h>
#include <string.h>
#include <errno.h>
#include <fcntl.h>
#include <poll.h>
#include <stdarg.h>
#include <sys/socket.h>
#include <netinet/in.h>

/* ---- fault script */
#define MAXDEPTH 9
static int script[64], script_n, script_pos, script_arity[64];
static int forced_ok;           /* set-up phase: every call succeeds */
static int eintr_budget;        /* at most this many interruptions per run (keeps retry loops finite) */
static char tracebuf[4096];
static void tr (const char *fmt, ...) { va_list ap; va_start (ap, fmt); size_t l = strlen (tracebuf); if (l < sizeof tracebuf - 200) vsnprintf (tracebuf + l, sizeof tracebuf - l, fmt, ap); va_end (ap); }
static int choose (int n)
{
	if (forced_ok) return 0;
	if (script_pos >= MAXDEPTH) return 0;                       /* beyond the bound: everything succeeds */
	if (script_pos >= script_n) { script[script_n] = 0; script_n++; }
	script_arity[script_pos] = n;
	return script[script_pos++] % n;
}
static int next_script (void)   /* odometer: increment the last choice that can still grow, drop what follows */
{
	while (script_n > 0) {
		if (script[script_n - 1] + 1 < script_arity[script_n - 1]) { script[script_n - 1]++; return 1; }
		script_n--;
	}
	return 0;
}

/* ---- kernel model: descriptor table and call log */
#define NFD 32
static struct { int open, nonblock, cloexec, closes; } fdt[NFD];
static int next_fd, bad_close, call_on_closed, n_accepted, last_accepted = -1;
static int n_transfer_ok, last_count, last_transfer_errno, n_polls, last_poll_result, last_poll_errno, poll_timeout_bad, poll_saw_zero, want_poll_timeout;
static const void *want_buf; static size_t want_len; static int arg_mismatch, nosignal_missing;
static int live (int fd) { if (fd < 0 || fd >= NFD || !fdt[fd].open) { call_on_closed++; tr (" [call on closed fd %d]", fd); return 0; } return 1; }
static int new_fd (void) { int fd = next_fd++; fdt[fd].open = 1; fdt[fd].nonblock = fdt[fd].cloexec = 0; fdt[fd].closes = 0; return fd; }
static void reset_kernel (void) { memset (fdt, 0, sizeof fdt); next_fd = 3; bad_close = call_on_closed = n_accepted = 0; last_accepted = -1; n_transfer_ok = 0; last_count = -2; last_transfer_errno = 0; n_polls = 0; last_poll_result = 9; last_poll_errno = 0; poll_timeout_bad = 0; poll_saw_zero = 0; arg_mismatch = nosignal_missing = 0; tracebuf[0] = 0; eintr_budget = 2; }
static int interrupted (void) { if (eintr_budget > 0) { eintr_budget--; return 1; } return 0; }

int socket (int d, int t, int p) { if (choose (2) == 1) { tr (" socket=EMFILE"); errno = EMFILE; return -1; } int fd = new_fd (); if (t & SOCK_CLOEXEC) fdt[fd].cloexec = 1; tr (" socket=%d", fd); return fd; }
int close (int fd) { if (fd < 0 || fd >= NFD || !fdt[fd].open) { if (fd >= 3 && fd < NFD) { bad_close++; tr (" close(%d)=EBADF!", fd); errno = EBADF; return -1; } return 0; } fdt[fd].open = 0; fdt[fd].closes++; tr (" close(%d)", fd); return 0; }
int fcntl (int fd, int cmd, ...)
{
	va_list ap; va_start (ap, cmd); long arg = va_arg (ap, long); va_end (ap);
	if (!live (fd)) { errno = EBADF; return -1; }
	switch (cmd) {
	case F_GETFD: return fdt[fd].cloexec ? FD_CLOEXEC : 0;
	case F_SETFD: fdt[fd].cloexec = (arg & FD_CLOEXEC) != 0; return 0;
	case F_GETFL: if (choose (2) == 1) { tr (" F_GETFL=fail"); errno = EINVAL; return -1; } return fdt[fd].nonblock ? O_NONBLOCK : 0;
	case F_SETFL: if (choose (2) == 1) { tr (" F_SETFL=fail"); errno = EINVAL; return -1; } fdt[fd].nonblock = (arg & O_NONBLOCK) != 0; return 0;
	}
	return 0;
}
int getsockopt (int fd, int level, int name, void *val, socklen_t *len)
{
	if (!live (fd)) { errno = EBADF; return -1; }
	if (name == SO_TYPE) { if (choose (2) == 1) { tr (" SO_TYPE=fail"); errno = ENOTSOCK; return -1; } *(int *) val = SOCK_STREAM; *len = sizeof (int); return 0; }
	if (name == SO_ERROR) { int c = choose (3); if (c == 2) { tr (" SO_ERROR=fail"); errno = EINVAL; return -1; } *(int *) val = c == 1 ? ECONNREFUSED : 0; *len = sizeof (int); tr (" SO_ERROR=%d", *(int *) val); return 0; }
	*(int *) val = 0; *len = sizeof (int); return 0;
}
int setsockopt (int fd, int level, int name, const void *val, socklen_t len) { if (!live (fd)) { errno = EBADF; return -1; } return 0; }
static void fill_addr (struct sockaddr *a, socklen_t *l) { struct sockaddr_in in; memset (&in, 0, sizeof in); in.sin_family = AF_INET; in.sin_port = htons (4000); in.sin_addr.s_addr = htonl (0x7f000001); if (a && l) { memcpy (a, &in, *l < sizeof in ? *l : sizeof in); *l = sizeof in; } }
int getsockname (int fd, struct sockaddr *a, socklen_t *l) { if (!live (fd)) { errno = EBADF; return -1; } if (choose (2) == 1) { tr (" getsockname=fail"); errno = ENOBUFS; return -1; } fill_addr (a, l); return 0; }
int getpeername (int fd, struct sockaddr *a, socklen_t *l) { if (!live (fd)) { errno = EBADF; return -1; } errno = ENOTCONN; return -1; }
int bind (int fd, const struct sockaddr *a, socklen_t l) { if (!live (fd)) { errno = EBADF; return -1; } return 0; }
int listen (int fd, int n) { if (!live (fd)) { errno = EBADF; return -1; } return 0; }
int shutdown (int fd, int how) { if (!live (fd)) { errno = EBADF; return -1; } return 0; }
int accept (int fd, struct sockaddr *a, socklen_t *l)
{
	if (!live (fd)) { errno = EBADF; return -1; }
	switch (choose (4)) {
	case 1: if (interrupted ()) { tr (" accept=EINTR"); last_transfer_errno = errno = EINTR; return -1; } /* fall through */
	case 0: { int n = new_fd (); n_accepted++; last_accepted = n; n_transfer_ok++; fill_addr (a, l); tr (" accept=%d", n); return n; }
	case 2: tr (" accept=EAGAIN"); last_transfer_errno = errno = EAGAIN; return -1;
	default: tr (" accept=ECONNABORTED"); last_transfer_errno = errno = ECONNABORTED; return -1;
	}
}
int connect (int fd, const struct sockaddr *a, socklen_t l)
{
	if (!live (fd)) { errno = EBADF; return -1; }
	switch (choose (4)) {
	case 1: if (interrupted ()) { tr (" connect=EINTR"); last_transfer_errno = errno = EINTR; return -1; } /* fall through */
	case 0: tr (" connect=0"); n_transfer_ok++; return 0;
	case 2: tr (" connect=EINPROGRESS"); last_transfer_errno = errno = EINPROGRESS; return -1;
	default: tr (" connect=ECONNREFUSED"); last_transfer_errno = errno = ECONNREFUSED; return -1;
	}
}
int poll (struct pollfd *p, nfds_t n, int timeout)
{
	n_polls++;
	if (n != 1 || !live (p[0].fd)) { errno = EBADF; return -1; }
	if (timeout != want_poll_timeout) { poll_timeout_bad++; tr (" [poll timeout %d, expected %d]", timeout, want_poll_timeout); }
	switch (choose (4)) {
	case 1: if (interrupted ()) { tr (" poll=EINTR"); last_poll_result = -1; last_poll_errno = errno = EINTR; return -1; } /* fall through */
	case 0: tr (" poll=1"); p[0].revents = p[0].events; last_poll_result = 1; return 1;
	case 2: if (timeout >= 0) { tr (" poll=0"); p[0].revents = 0; last_poll_result = 0; poll_saw_zero = 1; return 0; } tr (" poll=1"); p[0].revents = p[0].events; last_poll_result = 1; return 1;   /* an infinite wait never times out */
	default: tr (" poll=ENOMEM"); last_poll_result = -1; last_poll_errno = errno = ENOMEM; return -1;
	}
}
static ssize_t transfer (const char *what, int fd, const void *buf, size_t len)
{
	if (!live (fd)) { errno = EBADF; return -1; }
	if (n_transfer_ok > 0) tr (" [%s after a successful transfer]", what);
	if (buf != want_buf || len != want_len) { arg_mismatch++; tr (" [%s: buffer/length not the caller's]", what); }
	switch (choose (5)) {
	case 2: if (interrupted ()) { tr (" %s=EINTR", what); last_transfer_errno = errno = EINTR; last_count = -1; return -1; } /* fall through */
	case 0: n_transfer_ok++; last_count = (int) len; tr (" %s=%d", what, last_count); return last_count;
	case 1: n_transfer_ok++; last_count = len > 1 ? 1 : 0; tr (" %s=%d(short)", what, last_count); return last_count;
	case 3: tr (" %s=EAGAIN", what); last_transfer_errno = errno = EAGAIN; last_count = -1; return -1;
	default: tr (" %s=ECONNRESET", what); last_transfer_errno = errno = ECONNRESET; last_count = -1; return -1;
	}
}
ssize_t send (int fd, const void *b, size_t n, int fl) { if (!(fl & MSG_NOSIGNAL)) nosignal_missing++; return transfer ("send", fd, b, n); }
ssize_t sendto (int fd, const void *b, size_t n, int fl, const struct sockaddr *a, socklen_t l) { return transfer ("sendto", fd, b, n); }
ssize_t recv (int fd, void *b, size_t n, int fl) { return transfer ("recv", fd, b, n); }
ssize_t recvfrom (int fd, void *b, size_t n, int fl, struct sockaddr *a, socklen_t *l) { ssize_t r = transfer ("recvfrom", fd, b, n); if (r >= 0) fill_addr (a, l); return r; }

/* ---- scenarios */
static int fails; static const char *mode;
static void bad (const char *what) { if (fails < 3) printf ("REPRODUCED: %s: %s | native results:%s\n", mode, what, tracebuf); fails++; }
static int err_code (PError *e) { return e ? p_error_get_code (e) : 0; }
static PSocket *setup (int blocking, int timeout)
{
	forced_ok = 1;
	PSocket *s = p_socket_new (P_SOCKET_FAMILY_INET, P_SOCKET_TYPE_STREAM, P_SOCKET_PROTOCOL_TCP, NULL);
	if (!s) { printf ("setup failed\n"); exit (2); }
	p_socket_set_blocking (s, blocking ? TRUE : FALSE); p_socket_set_timeout (s, timeout);
	forced_ok = 0; tracebuf[0] = 0;
	want_poll_timeout = timeout > 0 ? timeout : -1;
	return s;
}
static void ledger (const char *when)
{
	char m[160];
	if (bad_close) { snprintf (m, sizeof m, "%s: close() on a descriptor that is not open (closed twice)", when); bad (m); }
	if (call_on_closed) { snprintf (m, sizeof m, "%s: native call on a closed descriptor", when); bad (m); }
}
static void all_closed (const char *when)
{
	for (int fd = 3; fd < next_fd; fd++) if (fdt[fd].open || fdt[fd].closes != 1) { char m[160]; snprintf (m, sizeof m, "%s: descriptor %d %s (closed %d time(s))", when, fd, fdt[fd].open ? "left open" : "not closed exactly once", fdt[fd].closes); bad (m); return; }
}
static void run_once (int blocking, int timeout)
{
	PError *err = NULL; char buf[8] = "abcdefg"; char m[200];
	PSocket *s = setup (blocking, timeout);
	if (!strcmp (mode, "accept")) {
		forced_ok = 1; p_socket_listen (s, NULL); forced_ok = 0;
		PSocket *c = p_socket_accept (s, &err);
		ledger ("accept");
		if (c != NULL) {
			int fd = p_socket_get_fd (c);
			if (fd != last_accepted || !fdt[fd].open) bad ("accept: the returned socket does not own the accepted descriptor");
			else { if (!fdt[fd].nonblock) bad ("accept: the accepted descriptor was left blocking (O_NONBLOCK not set)"); if (!fdt[fd].cloexec) bad ("accept: the accepted descriptor lacks FD_CLOEXEC"); }
			p_socket_free (c);
		} else {
			if (last_accepted >= 0 && (fdt[last_accepted].open || fdt[last_accepted].closes != 1)) bad ("accept failed: the accepted descriptor is not closed exactly once");
			if (err_code (err) == 0) bad ("accept failed without an error");
			if (blocking && err_code (err) == P_ERROR_IO_WOULD_BLOCK) bad ("accept: would-block reported in blocking mode");
			if (last_transfer_errno == EINTR && n_accepted == 0 && last_poll_result != -1 && last_poll_result != 0 && err_code (err) != P_ERROR_IO_NO_RESOURCES) bad ("accept: an interrupted accept() was reported to the caller");
		}
	} else if (!strcmp (mode, "io_condition_wait")) {
		pboolean r = p_socket_io_condition_wait (s, P_SOCKET_IO_CONDITION_POLLIN, &err);
		ledger ("io_condition_wait");
		if (poll_timeout_bad) bad ("io_condition_wait: poll() called with a timeout other than (timeout > 0 ? timeout : -1)");
		if (r == TRUE && last_poll_result != 1) bad ("io_condition_wait: TRUE although the last poll() did not report readiness");
		if (r == FALSE && last_poll_result == -1 && last_poll_errno == EINTR) bad ("io_condition_wait: an interrupted poll() was reported to the caller instead of being retried");
		if (r == FALSE && err_code (err) == P_ERROR_IO_TIMED_OUT && !poll_saw_zero) bad ("io_condition_wait: TIMED_OUT although poll() never returned 0");
		if (r == FALSE && last_poll_result == 0 && err_code (err) != P_ERROR_IO_TIMED_OUT) bad ("io_condition_wait: poll() returned 0 but the error is not TIMED_OUT");
		if (r == FALSE && last_poll_result == 1) bad ("io_condition_wait: FALSE although poll() reported readiness");
	} else if (!strcmp (mode, "send") || !strcmp (mode, "receive") || !strcmp (mode, "send_to") || !strcmp (mode, "receive_from")) {
		pssize r; PSocketAddress *from = NULL, *to = NULL;
		forced_ok = 1; to = p_socket_address_new ("127.0.0.1", 4000); forced_ok = 0;
		want_buf = buf; want_len = 7;
		if (!strcmp (mode, "send")) { forced_ok = 1; p_socket_connect (s, to, NULL); forced_ok = 0; n_transfer_ok = 0; tracebuf[0] = 0; last_transfer_errno = 0; r = p_socket_send (s, buf, 7, &err); }
		else if (!strcmp (mode, "receive")) r = p_socket_receive (s, buf, 7, &err);
		else if (!strcmp (mode, "send_to")) r = p_socket_send_to (s, to, buf, 7, &err);
		else r = p_socket_receive_from (s, &from, buf, 7, &err);
		ledger (mode);
		if (arg_mismatch) bad ("the native transfer did not get the caller's buffer and length");
		if (nosignal_missing) bad ("send without MSG_NOSIGNAL");
		if (n_transfer_ok > 1) bad ("more than one successful native transfer in one call (data duplicated or lost)");
		if (r >= 0 && (n_transfer_ok != 1 || r != last_count)) { snprintf (m, sizeof m, "returned %ld but the successful native transfer moved %d byte(s)", (long) r, last_count); bad (m); }
		if (r < 0 && n_transfer_ok > 0) bad ("returned -1 although a native transfer succeeded (bytes lost)");
		if (r < 0 && err_code (err) == 0) bad ("failed without an error");
		if (r < 0 && blocking && err_code (err) == P_ERROR_IO_WOULD_BLOCK) bad ("would-block reported to the caller in blocking mode");
		if (r < 0 && last_count == -1 && last_transfer_errno == EINTR && last_poll_result != -1 && last_poll_result != 0) bad ("an interrupted transfer call was reported to the caller instead of being retried");
		if (!blocking && n_polls > 0) bad ("poll() called in non-blocking mode");
		if (from) p_socket_address_free (from);
		p_socket_address_free (to);
	} else if (!strcmp (mode, "connect")) {
		PSocketAddress *to; forced_ok = 1; to = p_socket_address_new ("127.0.0.1", 4000); forced_ok = 0;
		pboolean r = p_socket_connect (s, to, &err);
		ledger ("connect");
		if (r == FALSE && err_code (err) == 0) bad ("connect failed without an error");
		if (r == FALSE && last_transfer_errno == EINTR && n_transfer_ok == 0 && n_polls == 0) bad ("an interrupted connect() was reported to the caller");
		if (!blocking && n_polls > 0) bad ("poll() called in non-blocking mode");
		if (r == TRUE && p_socket_is_connected (s) == FALSE) bad ("connect TRUE but the socket does not report connected");
		p_socket_address_free (to);
	} else if (!strcmp (mode, "close")) {
		int fd = p_socket_get_fd (s);
		pboolean r1 = p_socket_close (s, &err), r2 = p_socket_close (s, NULL);
		ledger ("close");
		if (r1 == TRUE && (fdt[fd].open || fdt[fd].closes != 1)) bad ("close TRUE but the descriptor was not closed exactly once");
		if (r1 == TRUE && (r2 != TRUE || p_socket_is_closed (s) != TRUE || p_socket_get_fd (s) != -1)) bad ("close is not idempotent / state not reset");
		if (p_socket_send (s, buf, 7, NULL) != -1 || call_on_closed) bad ("operation on a closed socket reached the kernel");
	} else if (!strcmp (mode, "new")) {
		PSocket *n = p_socket_new (P_SOCKET_FAMILY_INET, P_SOCKET_TYPE_STREAM, P_SOCKET_PROTOCOL_TCP, &err);
		ledger ("new");
		if (n == NULL) { for (int fd = 4; fd < next_fd; fd++) if (fdt[fd].open) bad ("failed p_socket_new left a descriptor open"); }
		else { int fd = p_socket_get_fd (n); if (!fdt[fd].nonblock || !fdt[fd].cloexec) bad ("new socket without O_NONBLOCK / FD_CLOEXEC"); p_socket_free (n); }
	} else { printf ("unknown mode %s\n", mode); exit (2); }
	if (err) p_error_free (err);
	p_socket_free (s);
	ledger ("free");
	all_closed ("after freeing every socket");
}
int main (int argc, char **argv)
{
	mode = argc > 1 ? argv[1] : "accept";
	p_libsys_init ();
	long runs = 0;
	for (int blocking = 0; blocking <= 1; blocking++)
		for (int t = 0; t <= 1; t++) {
			script_n = 0;
			do { reset_kernel (); script_pos = 0; run_once (blocking, t ? 500 : 0); runs++; } while (next_script () && runs < 2000000 && fails < 3);
		}
	printf ("%ld fault scripts of depth <= %d run\n", runs, MAXDEPTH);
	if (!fails) printf ("NOT-REPRODUCED\n");
	return 0;
}
